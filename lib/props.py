"""Per-property checks. Each = (A) TLC on the spec, (B) spec->impl replay, (C) impl->spec trace validation."""
import json, os, subprocess, sys, time
from vlib import *          # noqa

QUICK = "quick"


def setup():
    t0 = time.time()
    build_harness(False)
    build_harness(True)
    build_harness("nool")
    # parse every module
    bad = 0
    for f in sorted(os.listdir(SPEC)):
        if not f.endswith(".tla"):
            continue
        p = subprocess.run(["java", "-cp", TLA_CP, "tla2sany.SANY", f], cwd=SPEC, stdout=subprocess.PIPE,
                           stderr=subprocess.STDOUT, text=True)
        ok = p.returncode == 0 and "error" not in p.stdout.lower().replace("semantic errors:\n\n", "")
        if not ok and ("Fatal" in p.stdout or "*** Errors" in p.stdout or "Semantic errors" in p.stdout and "Could not" in p.stdout):
            log(f"[setup] SANY failed on {f}:\n{p.stdout[-1500:]}")
            bad += 1
    log(f"[setup] done in {time.time()-t0:.1f}s")
    return 2 if bad else 0


# =========================================================================== reader group
def devs_tla(prop=None):
    ds = sorted({k["deviation"] for k in open_deviations()})
    return "{" + ", ".join('"%s"' % d for d in ds) + "}"


def mc_reader(acc, K, mode, invs, emit=True, frag="markup", name="MC_Reader", timeout=1700, leg="A:MC_Reader"):
    cfg = f"""SPECIFICATION Spec
CONSTANTS
  K = {K}
  CfgMode = "{mode}"
  FragMode = "{frag}"
  Emit = {"TRUE" if emit else "FALSE"}
  KnownDevs = {devs_tla()}
INVARIANTS {' '.join(invs + (['Inv_Emit'] if emit else []))}
CHECK_DEADLOCK FALSE
"""
    r = tlc("MC_Reader", cfg, name=name, timeout=timeout)
    acc.add_tlc(r, f"{leg} K={K} cfgs={mode} frags={frag} invariants={','.join(invs)}")
    path = None
    if emit:
        path = os.path.join(work_dir("beh-" + name), "behaviours.ndjson")
        write_ndjson(path, r.tagged.get("REPLAY", []))
        if not r.tagged.get("REPLAY") and r.ok:
            raise ToolError("TLC emitted no behaviours")
    return r, path


_replayed = set()


def replay_reader(acc, path, mode, extra=(), enc=False, leg=None):
    if path is None:
        return
    summ, viol, _ = harness(["reader-replay", "--file", path, "--mode", mode, "--prop", acc.pid, "--out-dir", REPLAY_DIR,
                             "--seed", SEED, *extra], enc=enc)
    acc.add_harness(summ, viol, leg or f"B:replay {mode}{' (encoding feature on)' if enc else ''}",
                    count_nontrivial=path not in _replayed)
    _replayed.add(path)


def mc_source(acc, K, mode="two", faults=True, frag="markup", name="MC_Source", timeout=1700):
    cfg = f"""SPECIFICATION MCSpec
CONSTANTS
  K = {K}
  FragMode = "{frag}"
  CfgMode = "{mode}"
  FaultsOn = {"TRUE" if faults else "FALSE"}
INVARIANTS Inv_Refines Inv_Offset Inv_Buf Inv_Carry Inv_Env Inv_Fault
CHECK_DEADLOCK FALSE
"""
    tiny = cfg.replace(f"K = {K}", "K = 1")
    tiny = tiny[:tiny.index("INVARIANTS")] + "INVARIANTS Inv_Witness\nCHECK_DEADLOCK FALSE\n"
    rc = tlc("MC_Source", tiny, name=name + "-wit", timeout=600, tags=("WITNESS",))
    seen = set()
    for w in rc.tagged.get("WITNESS", []):
        seen |= set(json.loads(w))
    needed = {"init", "text", "peek", "bangpeek", "with", "bang", "stutter", "partial"} | ({"io"} if faults else set())
    if frag in ("doctype", "comment", "comment2", "cdata"):      # focused spaces exercise one construct kind
        needed -= {"with"}
    elif frag in ("pi", "tag"):
        needed -= {"bang", "bangpeek"}
    if needed - seen:
        raise ToolError(f"vacuous model: never reached: {needed - seen}")
    r = tlc("MC_Source", cfg, name=name, timeout=timeout)
    acc.add_tlc(r, f"A:MC_Source K={K} cfgs={mode} frags={frag} faults={faults} (all cuts drawn per refill)")
    return r


def validate_trace(acc, module, trace_path, leg, consts, timeout=1700, rerun_args=None):
    cfg = f"""SPECIFICATION TSpec
CONSTANTS
{consts}
INVARIANTS TInv_Pos
POSTCONDITION Accepted
CHECK_DEADLOCK FALSE
"""
    r = tlc(module, cfg, name=module + "-" + acc.pid, workers=1, timeout=timeout, env={"TRACE": trace_path}, xmx="6g", xss="1g",
            deque=True, tags=("TRACE", "DEVUSED", "DRIFT"))
    for d in r.tagged.get("DRIFT", []):
        acc.drift[str(d)] = acc.drift.get(str(d), 0) + 1
    tr = r.tagged.get("TRACE", [])
    matched = total = 0
    if tr:
        t = json.loads(tr[-1]) if isinstance(tr[-1], str) else tr[-1]
        matched, total = t["matched"], t["total"]
    acc.states += r.distinct
    acc.transitions += r.generated
    acc.cmds.append(r.cmd)
    for d in r.tagged.get("DEVUSED", []):
        for x in (json.loads(d) if isinstance(d, str) else d):
            acc.known_used[x] = acc.known_used.get(x, 0) + 1
    ok = r.violated is None and r.error is None and matched == total and total > 0
    acc.legs.append({"leg": leg, "tool": "TLC trace validation", "events_matched": matched, "events_total": total,
                     "wall_s": round(r.wall, 1), "ok": ok})
    log(f"[{acc.pid}] {leg}: TLC matched {matched}/{total} trace records in {r.wall:.1f}s")
    if not ok:
        # the run that contains the first unmatched record
        recs = [json.loads(l) for l in open(trace_path)]
        i = min(matched, len(recs) - 1)
        j = max([k for k in range(i + 1) if str(recs[k].get("t", "")).endswith("Reset")] or [0])
        e = next((k for k in range(i + 1, len(recs)) if str(recs[k].get("t", "")).endswith("Reset")), len(recs))
        os.makedirs(REPLAY_DIR, exist_ok=True)
        path = os.path.join(REPLAY_DIR, f"{acc.pid}-trace-{len(acc.violations)}.json")
        json.dump({"property": acc.pid, "kind": "rejected-trace", "module": module, "first_unmatched_record": i - j,
                   "violated_invariant": r.violated, "run_records": recs[j:e], "rerecord_args": rerun_args,
                   "tlc_tail": r.out[-3000:] if r.violated else ""}, open(path, "w"), indent=1)
        line = f"VIOLATION property={acc.pid} replay={path}"
        log(line)
        acc.violations.append(line)
    return ok


def trace_reader(acc, n, kinds, script, sources="all", max_len=400, enc=False, leg=None, seed_off=0):
    wd = work_dir("trace-" + acc.pid + ("-enc" if enc else "") + f"-{seed_off}")
    tp = os.path.join(wd, "trace.ndjson")
    args = ["reader-record", "--out", tp, "--n", n, "--kinds", kinds, "--script", script, "--sources", sources,
            "--max-len", max_len, "--seed", SEED + seed_off]
    summ, viol, _ = harness(args, enc=enc)
    leg = leg or f"C:traces kinds={kinds} script={script} sources={sources}{' enc' if enc else ''}"
    ok = validate_trace(acc, "TraceReader", tp, leg, f"  Deviations = {devs_tla()}", rerun_args=[str(a) for a in args])
    if summ:
        acc.traces += summ["traces"] if ok else 0
        acc.evaluations += summ["events"]
        acc.nontrivial += summ["nontrivial"]
        for s in summ["samples"][:2]:
            if len(acc.samples) < 8:
                acc.samples.append(s)


def trace_source(acc, n, max_len=200):
    """Leg (C) at the I/O boundary: every fill_buf / consume / Interrupted / Pending / error validated against Source.tla."""
    wd = work_dir("tracesrc-" + acc.pid)
    tp = os.path.join(wd, "trace.ndjson")
    args = ["source-record", "--out", tp, "--n", n, "--max-len", max_len, "--seed", SEED]
    summ, viol, _ = harness(args)
    ok = validate_trace(acc, "TraceSource", tp, "C:env-level traces (every fill_buf/consume/Interrupted/Pending/error) stepped through Source.tla",
                        "  FaultsOn = TRUE", rerun_args=[str(a) for a in args])
    if summ:
        acc.traces += summ["traces"] if ok else 0
        acc.evaluations += summ["events"]
        acc.nontrivial += summ["nontrivial"]
        for s in summ["samples"][:1]:
            acc.samples.append(s)


READER_TRUST = ["TLC 1.8 evaluates the specification correctly",
                "harness projection (harness/src/obs.rs) reports what the reader returned",
                "bounded scope: inputs of <= K fragments over the markup alphabet plus seeds; traces are samples"]


def c01(acc):
    """Reader events match the lexical structure."""
    q = acc.tier == QUICK
    acc.rule = ("(A/B) every byte string that is a concatenation of <= K fragments over 20 markup-significant fragments plus 13 curated seeds, "
                "under the listed configurations; Also: the all-configuration behaviours on chunked/async/NsReader/from_file sources, construct-focused alphabets (DOCTYPE nesting, comment/CDATA/PI terminator look-alikes, quotes in tags). non-trivial = distinct (input,config) whose expected stream has at least one event other than Text/Eof. "
                "(C) generated/mutated/random/corpus documents; non-trivial = distinct inputs with a markup event")
    acc.trusted = READER_TRUST
    inv = ["Inv_RefMatch", "Inv_Total", "Inv_Nesting"]
    _, p = mc_reader(acc, 3 if q else 4, "cover", inv, name="MC_Reader-cover")
    replay_reader(acc, p, "slice")
    if not q:
        replay_reader(acc, p, "slice", enc=True)
        _, p2 = mc_reader(acc, 3, "all", inv, name="MC_Reader-all", timeout=3000)
        replay_reader(acc, p2, "slice")
    else:
        _, p2 = mc_reader(acc, 2, "all", inv, name="MC_Reader-all")
        replay_reader(acc, p2, "slice")
        replay_reader(acc, p2, "slice", enc=True)
    # construct-focused spaces: nesting inside DOCTYPE, terminator look-alikes inside comment / CDATA / PI, quotes inside tags
    for mode, k in (("doctype", 5 if q else 6), ("comment", 5 if q else 7), ("cdata", 5 if q else 7), ("pi", 5 if q else 7), ("tag", 4 if q else 5), ("ws", 4 if q else 5)):
        _, pf = mc_reader(acc, k, "neutral", ["Inv_RefMatch", "Inv_Tiling"], frag=mode, name="MC_Reader-" + mode)
        replay_reader(acc, pf, "slice")
    # the property speaks of "the pull reader": the buffered and async sources implement the same scans separately
    # (their chunk-level behaviour is C02's subject; here: fixed piece sizes and all cuts of short inputs)
    replay_reader(acc, p2, "chunks", extra=["--max-all-cuts", 7, "--stride", 5 if q else 2])
    # the events after a skip call (read_to_end* / read_text), also a failing one, are still the document's events
    _, p6 = mc_ops(acc, 3, 0, 1, "trim", [], ["Inv_ReadRef", "Inv_SkipRef"], "MC_Ops-c01skip")
    replay_reader(acc, p6, "slice", extra=["--stride", 2 if q else 1])
    trace_reader(acc, 400 if q else 3000, "doc,mut,rand,corpus", "plain", sources="slice", max_len=600 if q else 4000)
    trace_reader(acc, 200 if q else 2000, "doc,mut,corpus", "plain", sources="all", max_len=400 if q else 3000, seed_off=4)
    # "the pull reader" over a source that reports ErrorKind::Interrupted / Pending now and then still returns the document's events
    _, pflt = mc_reader(acc, 2, "default", ["Inv_RefMatch"], name="MC_Reader-c01faults")
    replay_reader(acc, pflt, "faults")
    trace_reader(acc, 150 if q else 1500, "doc,mut,small", "faults", sources="all", max_len=300 if q else 1500, seed_off=8)
    return acc.finish()


def c02(acc):
    """Events independent of source type and chunking."""
    q = acc.tier == QUICK
    acc.rule = ("(A) Source.tla: every input of <= K fragments x every cut sequence (chosen per refill) x stutters; (B) the behaviours of MC_Reader executed on "
                "BufRead and tokio AsyncBufRead sources under all 2^(n-1) cuts for inputs up to 10 bytes (sizes 1,2,3,7 + random beyond) and three Pending patterns; "
                "(C) recorded traces over all source kinds with random cuts; Also: construct-focused alphabets in Source.tla (every cut per refill) and on the real sources under all one- and two-cut deliveries; env-level traces (every fill_buf/consume) stepped through Source.tla. non-trivial = distinct (input,config) with a markup event")
    acc.trusted = READER_TRUST + ["BOM / encoding sniff is outside Source.tla (first piece >= 4 bytes when the input starts like a BOM, as the property allows)"]
    mc_source(acc, 2 if q else 3, faults=False, name="MC_Source-nofault")
    if not q:
        mc_source(acc, 2, mode="cover", faults=False, name="MC_Source-cover")
    _, p = mc_reader(acc, 2 if q else 3, "cover" if q else "default", ["Inv_RefMatch"], name="MC_Reader-c02")
    replay_reader(acc, p, "chunks", extra=["--max-all-cuts", 9 if q else 12])
    # "independent of the source type": the borrowing (slice) source against the same expectation
    replay_reader(acc, p, "slice")
    # every kind of white space (and form feed, which is none) under the trimming configurations, on every source type
    _, pws = mc_reader(acc, 3 if q else 4, "cover", ["Inv_RefMatch"], frag="ws", name="MC_Reader-c02ws")
    replay_reader(acc, pws, "slice")
    replay_reader(acc, pws, "chunks", extra=["--max-all-cuts", 7, "--stride", 3 if q else 1])
    if not q:
        replay_reader(acc, p, "chunks", extra=["--max-all-cuts", 10], enc=True)
    # construct-focused spaces: the carries of the per-construct scanners (quote state, '?' flag, DOCTYPE balance, split terminators)
    # under every cut per refill in the model and under all one- and two-cut deliveries (plus fixed sizes) on the real sources
    for mode, k in (("doctype", 2 if q else 4), ("comment", 3 if q else 5), ("comment2", 4 if q else 6), ("cdata", 3 if q else 5), ("pi", 3 if q else 5), ("tag", 3 if q else 4)):
        mc_source(acc, k, faults=False, frag=mode, name="MC_Source-" + mode)
        _, pf = mc_reader(acc, k, "default", ["Inv_RefMatch"], frag=mode, name="MC_Reader-c02" + mode)
        replay_reader(acc, pf, "chunks", extra=["--max-all-cuts", 9 if q else 11, "--pair-cuts", 40])
    # raw bytes taken through Reader::stream() between events: the positions afterwards do not depend on the source either
    _, pst = mc_ops(acc, 2, 0, 0, "default", [], ["Inv_StreamTiling"], "MC_Ops-c02stream", streams=2)
    replay_reader(acc, pst, "chunks", extra=["--max-all-cuts", 0, "--stride", 3 if q else 1])
    trace_reader(acc, 300 if q else 3000, "doc,mut,rand,corpus,small", "plain", sources="all", max_len=500 if q else 3000)
    trace_source(acc, 300 if q else 3000, max_len=200 if q else 1500)
    return acc.finish()


def c18(acc):
    """I/O faults are transparent (interrupts) or reported once (errors)."""
    q = acc.tier == QUICK
    acc.rule = ("(A) Source.tla with one I/O error allowed at any refill and up to two Interrupted/Pending stutters; (B) for every MC_Reader behaviour and five "
                "cut patterns, every refill index as fault point: Interrupted x1, x2 (must be invisible) and a hard error (prefix + Io in the call that met it), "
                "sync and async; (C) recorded traces with random multi-interrupt patterns and hard errors; Also: construct-focused alphabets with faults; env-level traces. non-trivial = distinct (input,config) with a markup event")
    acc.trusted = READER_TRUST
    mc_source(acc, 2 if q else 3, faults=True, name="MC_Source-fault")
    _, p = mc_reader(acc, 2, "default" if q else "cover", ["Inv_RefMatch"], name="MC_Reader-c18")
    # (quick: two of the seven error kinds per fault point, rotating; thorough: all of them)
    replay_reader(acc, p, "faults", extra=[] if q else ["--all-kinds", 1])
    # the encoding feature replaces the byte-order-mark step of the first refill by the encoding sniffer
    replay_reader(acc, p, "faults", enc=True)
    # construct-focused spaces: a fault while a scanner carry (quote state, '?' flag, DOCTYPE balance, split terminator) is live
    for mode, k in (("doctype", 2 if q else 3), ("comment2", 3 if q else 5), ("cdata", 2 if q else 4), ("pi", 2 if q else 4), ("tag", 2 if q else 3)):
        mc_source(acc, k, faults=True, frag=mode, name="MC_Source-fault-" + mode)
        _, pf = mc_reader(acc, k, "default", ["Inv_RefMatch"], frag=mode, name="MC_Reader-c18" + mode)
        replay_reader(acc, pf, "faults")
    trace_reader(acc, 400 if q else 4000, "doc,mut,corpus,small", "faults", sources="all", max_len=300 if q else 2000)
    trace_source(acc, 300 if q else 3000, max_len=200 if q else 1500)
    return acc.finish("model_checking")


def c03(acc):
    """Totality, termination, Eof final, position sanity."""
    q = acc.tier == QUICK
    acc.rule = ("(A) MC_Reader with Inv_Total over the markup alphabet and over a byte-class alphabet (NUL, 0x80, 0xFF, letters, markup bytes); (B) each behaviour "
                "executed on slice/str and chunked sources with every payload accessor exercised under catch_unwind; (C) random 256-value byte strings, mutated and "
                "corpus documents over all sources with configuration flips; a panic is recorded as data and rejected. Also: NsReader (slice and chunked) and from_file sources; harness built with overflow checks and debug assertions. non-trivial = distinct (input,config) with a markup event")
    acc.trusted = READER_TRUST + ["a concrete panic is found by running the code (the spec supplies result domain, shapes and invariants)"]
    _, p = mc_reader(acc, 3 if q else 4, "cover", ["Inv_Total", "Inv_RefMatch"], frag="bytes", name="MC_Reader-bytes")
    replay_reader(acc, p, "slice")
    replay_reader(acc, p, "slice", enc=True)
    _, p2 = mc_reader(acc, 2, "all", ["Inv_Total"], name="MC_Reader-c03all")
    replay_reader(acc, p2, "chunks", extra=["--max-all-cuts", 6, "--stride", 4])
    replay_reader(acc, p2, "slice")      # incl. the namespace-aware reader (own bookkeeping per Start/End, e.g. on unmatched end tags)
    # skip calls issued at any later point (after text, children, end tags): spans stay ordered and within the input, no panic
    _, pk = mc_ops(acc, 3, 0, 2, "default", [], ["Inv_SkipRef"], "MC_Ops-c03skipany", skipany=True)
    replay_reader(acc, pk, "slice", extra=["--stride", 2 if q else 1])
    # the namespace-aware reader on documents WITH declarations (also rejected ones, after valid ones): read to the end, going on
    # after every recoverable error, every name resolved and the prefixes listed after each call - no panic
    _, pns = mc_ns(acc, 2, 1, False, "MC_Ns-c03")
    summ, viol, _ = harness(["ns-replay", "--file", pns, "--prop", acc.pid, "--out-dir", REPLAY_DIR])
    acc.add_harness(summ, viol, "B:NsReader totality on documents with namespace declarations")
    # positions stay within the input when raw bytes are taken through Reader::stream() (io::Read, BufRead and the tokio traits)
    _, ps = mc_ops(acc, 2 if q else 3, 0, 0, "default", [], ["Inv_StreamTiling"], "MC_Ops-c03stream", streams=2)
    replay_reader(acc, ps, "chunks", extra=["--max-all-cuts", 0, "--stride", 3 if q else 1])
    trace_reader(acc, 500 if q else 5000, "rand,small,mut,corpus", "flips", sources="all", max_len=300 if q else 2000)
    trace_reader(acc, 300 if q else 3000, "rand,small,mut", "mix", sources="all", max_len=200, enc=True, seed_off=1)
    return acc.finish()


def c08(acc):
    """Positions account for every byte; read-then-write reproduces the input."""
    q = acc.tier == QUICK
    acc.rule = ("(A) MC_Reader Inv_Tiling (span between consecutive positions = the event's markup; final position = length) for configurations without trimming/"
                "expansion; (B) positions after every call compared, and every event written back with Writer::write_event and compared with the spec's rendering "
                "(slice and two chunked sources); (C) corpus/generated traces under the neutral-like configurations. Also: Reader::stream() raw reads between events (MC_ReaderOps Stream action, Inv_StreamTiling; io::Read with short reads and fill_buf/consume), TRaw trace records. non-trivial = distinct input with a markup event")
    acc.trusted = READER_TRUST
    _, p = mc_reader(acc, 3 if q else 4, "neutral", ["Inv_Tiling", "Inv_RefMatch"], name="MC_Reader-c08")
    replay_reader(acc, p, "slice")
    replay_reader(acc, p, "roundtrip")
    _, p2 = mc_reader(acc, 2 if q else 3, "all", ["Inv_Tiling"], name="MC_Reader-c08all")
    replay_reader(acc, p2, "roundtrip")
    # construct-focused spaces (blank before '>' after '/', DOCTYPE spelling and nesting, terminator look-alikes)
    for mode, k in (("tag", 4 if q else 5), ("doctype", 4 if q else 6), ("comment", 4 if q else 6), ("cdata", 4 if q else 6), ("pi", 4 if q else 6), ("ws", 4 if q else 5)):
        _, pf = mc_reader(acc, k, "neutral", ["Inv_Tiling", "Inv_RefMatch"], frag=mode, name="MC_Reader-c08" + mode)
        replay_reader(acc, pf, "slice")
        replay_reader(acc, pf, "roundtrip")
    # raw reads through Reader::stream() between events: the position moves by exactly the bytes handed out
    _, ps = mc_ops(acc, 2 if q else 3, 0, 0, "four", [], ["Inv_StreamTiling"], "MC_Ops-c08stream", streams=2)
    replay_reader(acc, ps, "slice", extra=["--stride", 4 if q else 1])
    replay_reader(acc, ps, "chunks", extra=["--max-all-cuts", 0, "--stride", 16 if q else 2])
    # a source that answers `Interrupted` now and then: positions and the written copy are those of the undisturbed run
    _, pflt = mc_reader(acc, 2, "neutral", ["Inv_Tiling"], name="MC_Reader-c08faults")
    replay_reader(acc, pflt, "faults")
    # the spans handed out by the skip calls (read_to_end* / read_text), issued after ANY event, tile the input together with the events' spans
    _, pk = mc_ops(acc, 3, 0, 2, "default", [], ["Inv_SkipRef"], "MC_Ops-c08skipany", skipany=True)
    replay_reader(acc, pk, "slice", extra=["--stride", 2 if q else 1])
    trace_reader(acc, 300 if q else 3000, "doc,corpus,mut", "plain", sources="all", max_len=800 if q else 6000)
    trace_reader(acc, 200 if q else 2000, "doc,corpus,mut,small", "raw", sources="all", max_len=300 if q else 2000, seed_off=2)
    return acc.finish()


def c16(acc):
    """Reader options change the stream only in the documented way."""
    q = acc.tier == QUICK
    acc.rule = ("(A) MC_Reader Inv_RefMatch: machine stream under cfg = Transform(cfg, neutral grammar stream) incl. positions, for all 128 configurations (K small) "
                "and a pairwise-covering set (K larger); (B) the same behaviours on the real reader; (C) traces with random configurations. "
                "Also: skip and toggle histories (MC_ReaderOps: read_to_end*/read_text under the trim switches incl. failing ones, Config::trim_text / enable_all_checks helpers, library defaults), chunked sources, focused comment alphabet. non-trivial = distinct (input,config) with a markup event")
    acc.trusted = READER_TRUST
    _, p = mc_reader(acc, 2 if q else 3, "all", ["Inv_RefMatch", "Inv_Nesting"], name="MC_Reader-c16all", timeout=3000)
    replay_reader(acc, p, "slice")
    _, p2 = mc_reader(acc, 3 if q else 4, "cover", ["Inv_RefMatch"], name="MC_Reader-c16cover")
    replay_reader(acc, p2, "slice")
    # hyphen runs inside comments under check_comments, end-tag blanks under trim_markup_names, blanks around text under the trims
    _, p3 = mc_reader(acc, 6 if q else 8, "cover", ["Inv_RefMatch"], frag="comment2", name="MC_Reader-c16comment")
    replay_reader(acc, p3, "slice")
    # every kind of white space (and form feed, which is none) in tags, end tags and text under the trimming switches
    _, pw = mc_reader(acc, 4 if q else 5, "cover", ["Inv_RefMatch"], frag="ws", name="MC_Reader-c16ws")
    replay_reader(acc, pw, "slice")
    # the switches are per-reader state that other calls touch: read_to_end*/read_text switch trimming off while they skip and
    # must leave every option as documented afterwards (also when they fail with a recoverable error and reading goes on);
    # toggles between calls take effect from the next call on
    _, p4 = mc_ops(acc, 3, 0, 1, "trim", [], ["Inv_ReadRef", "Inv_SkipRef"], "MC_Ops-c16skip")
    replay_reader(acc, p4, "slice")
    replay_reader(acc, p4, "chunks", extra=["--max-all-cuts", 0, "--stride", 3 if q else 1])
    # (L=3 with two toggles of five keys exhausts 8 GB: the thorough tier takes the longer documents with one toggle)
    _, p5 = mc_ops(acc, 2 if q else 3, 2 if q else 1, 0, "trim", ["tts", "tte", "eee", "cc", "helpers"], ["Inv_ReadRef"], "MC_Ops-c16flip")
    replay_reader(acc, p5, "slice", extra=["--stride", 2 if q else 1])
    if not q:
        _, p5b = mc_ops(acc, 2, 2, 0, "trim", ["tts", "tte", "eee", "cc", "helpers"], ["Inv_ReadRef"], "MC_Ops-c16flip2")
        replay_reader(acc, p5b, "slice")
    # the buffered and async sources implement the trims separately from the slice source
    replay_reader(acc, p, "chunks", extra=["--max-all-cuts", 7, "--stride", 5 if q else 2])
    trace_reader(acc, 400 if q else 4000, "doc,mut,corpus", "plain", sources="all", max_len=500 if q else 3000)
    trace_reader(acc, 200 if q else 2000, "doc,mut,corpus", "skips", sources="all", max_len=300 if q else 2000, seed_off=3)
    return acc.finish()


def mc_ops(acc, L, flips, skips, init, keys, invs, name, emit=True, timeout=2500, streams=0, skipany=False):
    cfg = f"""SPECIFICATION Spec
CONSTANTS
  L = {L}
  MaxFlips = {flips}
  MaxSkips = {skips}
  MaxStreams = {streams}
  SkipAnywhere = {"TRUE" if skipany else "FALSE"}
  FlipKeys = {{{', '.join('"%s"' % k for k in keys)}}}
  InitCfgs = "{init}"
  KnownDevs = {devs_tla()}
  Emit = {"TRUE" if emit else "FALSE"}
INVARIANTS {' '.join(invs + (['Inv_Emit'] if emit else []))}
CHECK_DEADLOCK FALSE
"""
    # vacuity: on a tiny instance every operation must be witnessed (TLC -coverage is pathologically slow on these modules)
    tiny = cfg.replace(f"L = {L}", "L = 1")
    tiny = tiny[:tiny.index("INVARIANTS")] + "INVARIANTS Inv_Witness\nCHECK_DEADLOCK FALSE\n"
    rc = tlc("MC_ReaderOps", tiny, name=name + "-wit", timeout=600, tags=("WITNESS",))
    seen = {json.loads(w)[0] for w in rc.tagged.get("WITNESS", [])}
    needed = {"read"} | ({"flip"} if flips else set()) | ({"skip"} if skips else set()) | ({"stream"} if streams else set())
    if needed - seen:
        raise ToolError(f"vacuous model: operations never taken: {needed - seen}")
    r = tlc("MC_ReaderOps", cfg, name=name, timeout=timeout)
    acc.add_tlc(r, f"A:MC_ReaderOps L={L} flips<={flips} skips<={skips} streams<={streams} init={init} keys={','.join(keys)}")
    path = None
    if emit:
        path = os.path.join(work_dir("beh-" + name), "behaviours.ndjson")
        write_ndjson(path, r.tagged.get("REPLAY", []))
    return r, path


def c04(acc):
    """End tags matched against open start tags exactly as configured."""
    q = acc.tier == QUICK
    acc.rule = ("(A) MC_ReaderOps: tag sequences of <= L fragments over names a/ab/b (prefixes of each other), '</a >', '<a/>', look-alike end tags in comment/CDATA; "
                "all 16 settings of check_end_names/allow_unmatched_ends/expand_empty_elements/trim_markup_names x toggles of these switches at any point of the call "
                "history; every Read compared with a reference computed from the current configuration and the TRUE nesting; (B) every history replayed on the real "
                "reader (slice and chunked); (C) recorded traces with random flips. non-trivial = distinct (input,config) with a markup event")
    acc.trusted = READER_TRUST
    invs = ["Inv_ReadRef", "Inv_Nest", "Inv_NestEmpty"]
    keys = ["cen", "aue", "eee", "tmn"]
    _, p = mc_ops(acc, 2 if q else 3, 2 if q else 2, 0, "four", keys, invs, "MC_Ops-c04")
    replay_reader(acc, p, "slice")
    # a raw read (Reader::stream(), even of zero bytes) between two events leaves the pending synthetic End of an expanded <a/>
    # and the open-element stack alone
    _, pst = mc_ops(acc, 2, 0, 0, "four", [], ["Inv_ReadRef", "Inv_StreamTiling"], "MC_Ops-c04stream", streams=1)
    replay_reader(acc, pst, "slice", extra=["--stride", 2 if q else 1])
    replay_reader(acc, p, "chunks", extra=["--max-all-cuts", 0, "--stride", 3 if q else 1])
    if q:
        mc_ops(acc, 3, 1, 0, "default", keys, invs, "MC_Ops-c04b", emit=False)
    _, p3 = mc_reader(acc, 3, "cover", ["Inv_Nesting", "Inv_RefMatch"], name="MC_Reader-c04")
    replay_reader(acc, p3, "slice")
    # the open-element stack is also maintained by the skip calls (read_to_end* on every source, also on an expanded <a/>)
    _, p4 = mc_ops(acc, 3, 1, 1, "four", ["cen"], invs + ["Inv_SkipRef"], "MC_Ops-c04skip")
    replay_reader(acc, p4, "slice", extra=["--stride", 3 if q else 1])
    replay_reader(acc, p4, "chunks", extra=["--max-all-cuts", 0, "--stride", 5 if q else 2])
    trace_reader(acc, 400 if q else 4000, "doc,mut,corpus", "flips", sources="all", max_len=400 if q else 3000)
    return acc.finish()


def c12(acc):
    """Skipping consumes exactly one element and reports its inner span."""
    q = acc.tier == QUICK
    acc.rule = ("(A) MC_ReaderOps with Skip after any Start: documents of <= L tag-level fragments (repeated names, <a/>, '</a >', end-tag look-alikes in comment/CDATA, "
                "truncated seeds) x trim/expand configurations (and flips in the thorough tier); result compared with a declarative tree-based reference, span "
                "delimiters checked; (B) every history replayed with read_to_end / read_to_end_into / read_to_end_into_async / read_text and config() read back; "
                "(C) recorded traces with random skip calls. non-trivial = distinct (input,config) with a markup event")
    acc.trusted = READER_TRUST
    invs = ["Inv_ReadRef", "Inv_SkipRef", "Inv_Nest"]
    _, p = mc_ops(acc, 3, 0, 2, "trim", [], invs, "MC_Ops-c12")
    replay_reader(acc, p, "slice")
    replay_reader(acc, p, "chunks", extra=["--max-all-cuts", 0])
    _, p2 = mc_ops(acc, 2 if q else 3, 1, 2 if q else 1, "four", ["tts", "tte", "eee", "cen"], invs, "MC_Ops-c12b")
    replay_reader(acc, p2, "slice", extra=["--stride", 2 if q else 1])
    # skip calls issued later than right after the Start event (after text, children, end tags)
    _, pk = mc_ops(acc, 3, 0, 2, "trim", [], invs, "MC_Ops-c12any", skipany=True)
    replay_reader(acc, pk, "slice", extra=["--stride", 2 if q else 1])
    replay_reader(acc, pk, "chunks", extra=["--max-all-cuts", 0, "--stride", 7 if q else 2])
    # the curated documents alone (terminator look-alikes inside CDATA / comments of the skipped element) under every one- and two-cut delivery
    _, psd = mc_ops(acc, 0, 0, 2, "trim", [], invs, "MC_Ops-c12seeds", skipany=True)
    replay_reader(acc, psd, "chunks", extra=["--max-all-cuts", 0, "--pair-cuts", 60])
    # a skip call spans many refills of a buffered source: interrupts at any of them are invisible, a hard error is reported by the call
    replay_reader(acc, p, "faults", extra=["--stride", 7 if q else 2])
    trace_reader(acc, 400 if q else 4000, "doc,mut,corpus", "skips", sources="all", max_len=400 if q else 3000)
    return acc.finish()


def mc_attrs(acc, N, mode, maxattrs, emit, name):
    cfg = f"""SPECIFICATION Spec
CONSTANTS
  N = {N}
  Mode = "{mode}"
  Emit = {"TRUE" if emit else "FALSE"}
  MaxAttrs = {maxattrs}
INVARIANTS Inv_Ends Inv_Spans Inv_HtmlOnlyAdds Inv_Dups Inv_Lists Inv_HasNil Inv_Toggle Inv_Emit
CHECK_DEADLOCK FALSE
"""
    r = tlc("MC_Attrs", cfg, name=name, timeout=2500)
    acc.add_tlc(r, f"A:MC_Attrs mode={mode} N={N} MaxAttrs={maxattrs}")
    path = None
    if emit:
        path = os.path.join(work_dir("beh-" + name), "behaviours.ndjson")
        write_ndjson(path, r.tagged.get("REPLAY", []))
    return r, path


def c11(acc):
    """Attribute iteration yields exactly the tag's attributes or the documented error."""
    q = acc.tier == QUICK
    acc.rule = ("(A) Attrs.tla: (i) every tag content of <= N bytes over {SP,TAB,=,\",',a,b,/} x XML/HTML x checks: ends, stays ended, spans exact, HTML only adds, "
                "duplicate discipline; (ii) attribute lists constructed from parts with one injected fault of each kind at every position: items must equal the "
                "constructed expectation (documented error, position, recovery). (B) every case iterated with the real Attributes (to None and three calls beyond); "
                "(C) generated lists of 0-8 attributes with injected faults validated by TLC. non-trivial = cases with >= 2 items")
    acc.trusted = ["TLC", "harness/src/attrs.rs projection", "bounded scope N / MaxAttrs; generated traces are samples"]
    _, p = mc_attrs(acc, 5 if q else 7, "strings", 2, True, "MC_Attrs-strings")
    summ, viol, _ = harness(["attrs-replay", "--file", p, "--prop", acc.pid, "--out-dir", REPLAY_DIR])
    acc.add_harness(summ, viol, "B:replay strings")
    _, p2 = mc_attrs(acc, 1, "lists", 2, True, "MC_Attrs-lists")      # (three attributes out of the 39 forms x 20 fault placements do not finish within the TLC time limit; the thorough tier widens the strings instead)
    summ, viol, _ = harness(["attrs-replay", "--file", p2, "--prop", acc.pid, "--out-dir", REPLAY_DIR])
    acc.add_harness(summ, viol, "B:replay lists")
    wd = work_dir("trace-C11")
    tp = os.path.join(wd, "trace.ndjson")
    args = ["attrs-record", "--out", tp, "--n", 3000 if q else 40000, "--seed", SEED]
    summ, viol, _ = harness(args)
    ok = validate_trace(acc, "TraceAttrs", tp, "C:traces generated attribute lists", "", rerun_args=[str(a) for a in args])
    if summ:
        acc.traces += summ["traces"] if ok else 0
        acc.evaluations += summ["events"]
        acc.nontrivial += summ["nontrivial"]
        acc.samples += summ["samples"][:2]
    return acc.finish()


def c10(acc):
    """Escaping is safe and unescaping is its exact inverse."""
    q = acc.tier == QUICK
    acc.rule = ("(A) Escape.tla: every string of <= N symbols over {<,>,&,',\",#,x,;,1,0,a,l,t,SP,e-acute}: unescape(escape_level(s)) = s for 4 levels, escaped form "
                "safe, no '&' => unchanged, success => every '&' closed, stability. (B) the same strings through the real escape/partial_escape/minimal_escape/"
                "unescape (value/error, borrowed flag, real round trip). (C) random Unicode strings and the sweep of all code points 0..0x110400 in decimal, lower/"
                "upper hex and zero-padded spellings (run-length encoded; TLC evaluates ValidScalar on every code point) plus boundary spellings with output bytes. "
                "non-trivial = strings containing '&' (and every swept code point)")
    acc.trusted = ["TLC", "harness/src/esc.rs", "feature escape-html off (five predefined entities)"]
    for mode, n in (("general", 4 if q else 5), ("ref", 5 if q else 6), ("name", 3 if q else 5)):      # (20 / 10 symbols: 3.4 M / 1.1 M strings in the thorough tier)
        cfg = f"""SPECIFICATION Spec
CONSTANTS
  N = {n}
  Emit = TRUE
  Mode = "{mode}"
INVARIANTS Inv_RoundTrip Inv_Safe Inv_NoAmp Inv_Closed Inv_Stable Inv_Custom Inv_Lenient Inv_Emit
CHECK_DEADLOCK FALSE
"""
        r = tlc("MC_Escape", cfg, name="MC_Escape-" + mode, timeout=3000)
        acc.add_tlc(r, f"A:MC_Escape mode={mode} N={n}")
        p = os.path.join(work_dir("beh-MC_Escape-" + mode), "behaviours.ndjson")
        write_ndjson(p, r.tagged.get("REPLAY", []))
        summ, viol, _ = harness(["escape-replay", "--file", p, "--prop", acc.pid, "--out-dir", REPLAY_DIR])
        acc.add_harness(summ, viol, f"B:replay strings ({mode})")
    wd = work_dir("trace-C10")
    tp = os.path.join(wd, "trace.ndjson")
    args = ["escape-record", "--out", tp, "--n", 3000 if q else 30000, "--seed", SEED, "--sweep", 1]
    summ, viol, _ = harness(args)
    ok = validate_trace(acc, "TraceEscape", tp, "C:traces random strings + all code points in both radices", "", rerun_args=[str(a) for a in args])
    if summ:
        acc.traces += summ["traces"] if ok else 0
        acc.evaluations += summ["comparisons"]
        acc.nontrivial += summ["nontrivial"]
        acc.samples += summ["samples"][:2]
    return acc.finish(extra={"code_points_swept": summ.get("code_points_swept", 0) if summ else 0})


def mc_ns(acc, L, skips, expand, name, emit=True, timeout=3000):
    base = f"""SPECIFICATION Spec
CONSTANTS
  L = {L}
  MaxSkips = {skips}
  Expand = {"TRUE" if expand else "FALSE"}
  Emit = {"TRUE" if emit else "FALSE"}
  KnownDevs = {devs_tla()}
"""
    tiny = base.replace(f"L = {L}", "L = 2").replace("Emit = TRUE", "Emit = FALSE") + "INVARIANTS Inv_Witness\nCHECK_DEADLOCK FALSE\n"
    rc = tlc("MC_Ns", tiny, name=name + "-wit", timeout=600, xss="512m", tags=("WITNESS",))
    seen = {json.loads(w)[0] for w in rc.tagged.get("WITNESS", [])}
    if {"read", "skip"} - seen:
        raise ToolError(f"vacuous model: operations never taken: {{'read','skip'}} - {seen}")
    r = tlc("MC_Ns", base + "INVARIANTS Inv_Scope Inv_Prefixes Inv_Level" + (" Inv_Emit" if emit else "") + "\nCHECK_DEADLOCK FALSE\n", name=name, timeout=timeout, xss="512m")
    acc.add_tlc(r, f"A:MC_Ns L={L} skips<={skips} expand_empty={expand}")
    path = None
    if emit:
        path = os.path.join(work_dir("beh-" + name), "behaviours.ndjson")
        write_ndjson(path, r.tagged.get("REPLAY", []))
    return r, path


def c05(acc):
    """Namespace resolution follows the declarations in scope at each event."""
    q = acc.tier == QUICK
    acc.rule = ("(A) MC_Ns: properly nested documents of <= L tag-level fragments (12 start-tag forms with default/prefixed declarations, re-declaration, un-declaration, the reserved xml prefix re-declared legally and illegally next to other declarations, "
                "shadowing on one tag, prefixed attributes; empty elements; text) x every history of read / skip calls; after every call the resolver state must agree "
                "with the declarative nearest-declaration scope for 5 pool names x element/attribute, prefixes() and nesting level. (B) every (document, history) run "
                "on the real NsReader: slice (read_event/read_resolved_event, read_to_end and read_text), buffered (two cuts), async; (C) random deeper documents and "
                "histories validated by TLC. non-trivial = histories containing a skip call")
    acc.trusted = READER_TRUST + ["Attrs.tla is the attribute grammar used to find declarations"]
    for expand in ([False, True] if not q else [False]):
        _, p = mc_ns(acc, 3 if q else 4, 2, expand, f"MC_Ns-{int(expand)}")
        summ, viol, _ = harness(["ns-replay", "--file", p, "--prop", acc.pid, "--out-dir", REPLAY_DIR])
        acc.add_harness(summ, viol, f"B:replay histories (expand_empty={expand})")
    if q:
        _, p = mc_ns(acc, 2, 2, True, "MC_Ns-1")
        summ, viol, _ = harness(["ns-replay", "--file", p, "--prop", acc.pid, "--out-dir", REPLAY_DIR])
        acc.add_harness(summ, viol, "B:replay histories (expand_empty=True)")
    wd = work_dir("trace-C05")
    tp = os.path.join(wd, "trace.ndjson")
    args = ["ns-record", "--out", tp, "--n", 250 if q else 3000, "--seed", SEED]
    summ, viol, _ = harness(args)
    ok = validate_trace(acc, "TraceNs", tp, "C:traces random documents and consumer histories on slice/buffered/async", f"  Deviations = {devs_tla()}",
                        rerun_args=[str(a) for a in args])
    if summ:
        acc.traces += summ["traces"] if ok else 0
        acc.evaluations += summ["events"]
        acc.nontrivial += summ["nontrivial"]
        acc.samples += summ["samples"][:2]
    return acc.finish()


def mc_writer(acc, M, mode, widths, name, timeout=3000):
    cfg = f"""SPECIFICATION Spec
CONSTANTS
  M = {M}
  Mode = "{mode}"
  Emit = TRUE
  Widths = {{{', '.join(str(w) for w in widths)}}}
INVARIANTS Inv_Indent Inv_IndentConforms Inv_Plain Inv_IndentReadBack Inv_Saturate Inv_Build Inv_Elem Inv_Emit
CHECK_DEADLOCK FALSE
"""
    r = tlc("MC_Writer", cfg, name=name, timeout=timeout, xss="512m")
    acc.add_tlc(r, f"A:MC_Writer mode={mode} M={M} widths={widths}")
    path = os.path.join(work_dir("beh-" + name), "behaviours.ndjson")
    write_ndjson(path, r.tagged.get("REPLAY", []))
    return r, path


def writer_traces(acc, n):
    wd = work_dir("trace-" + acc.pid)
    tp = os.path.join(wd, "trace.ndjson")
    args = ["writer-record", "--out", tp, "--n", n, "--seed", SEED]
    summ, viol, _ = harness(args)
    ok = validate_trace(acc, "TraceWriter", tp, "C:traces long event sequences (deep nesting, widths 0-9) and random construction sequences", "",
                        rerun_args=[str(a) for a in args])
    if summ:
        acc.traces += summ["traces"] if ok else 0
        acc.evaluations += summ["events"]
        acc.nontrivial += summ["nontrivial"]
        acc.samples += summ["samples"][:3]


def c09(acc):
    """Events built through the API and written are read back identical."""
    q = acc.tier == QUICK
    acc.rule = ("(A) MC_Writer build mode: every sequence of <= M construction descriptors out of 59 (BytesStart::new + push/extend/clear/set_name edits, BytesText::new, "
                "BytesCData::escaped, comment, PI, BytesDecl::new, DOCTYPE, ElementWriter text/empty/cdata/pi) with payloads from a markup-heavy pool: reading the "
                "written bytes back (reader+attribute+escape specs composed) gives the constructed logical events. (B) the same sequences built with the real "
                "constructors, written sync and async, read back with the real reader and unescaped. (C) random longer construction sequences validated by TLC. "
                "Also: ElementWriter operation lists (mode elem: with_attribute / with_attributes / new_line x 4 finishing calls x depth x plain/indenting, sync and *_async), sinks with short writes, write_bom. non-trivial = sequences of >= 2 descriptors")
    acc.trusted = ["TLC", "harness/src/writer.rs (descriptor interpreter, logical read-back)", "constructor preconditions as documented (names without blanks/'>', comments without '--', PI without '?>')"]
    _, p = mc_writer(acc, 2 if q else 3, "build", [0], "MC_Writer-build")
    summ, viol, _ = harness(["writer-replay", "--file", p, "--prop", acc.pid, "--out-dir", REPLAY_DIR])
    acc.add_harness(summ, viol, "B:replay construction sequences")
    # the element builder: with_attribute / with_attributes / new_line in every order, four finishing calls, sync and async
    _, pe = mc_writer(acc, 3 if q else 4, "elem", [0, 2], "MC_Writer-elem-c09")
    summ, viol, _ = harness(["writer-replay", "--file", pe, "--prop", acc.pid, "--out-dir", REPLAY_DIR])
    acc.add_harness(summ, viol, "B:replay ElementWriter operation lists (plain and indenting writer, depth 0-2, sync/async, short writes)")
    # the asynchronous writer is a separate copy of the event table: same bytes also when indenting (incl. empty text events)
    _, pi = mc_writer(acc, 3 if q else 4, "indent", [2], "MC_Writer-indent-c09")
    summ, viol, _ = harness(["writer-replay", "--file", pi, "--prop", acc.pid, "--out-dir", REPLAY_DIR])
    acc.add_harness(summ, viol, "B:replay event sequences on the indenting writer: sync = async, read-back")
    writer_traces(acc, 400 if q else 5000)
    return acc.finish()


def c19(acc):
    """Indentation adds only whitespace between markup and never touches content."""
    q = acc.tier == QUICK
    acc.rule = ("(A) MC_Writer indent mode: every sequence of <= M events over the ten kinds (two Text variants; unbalanced allowed; Eof last) x indent char SP/TAB x "
                "widths: machine output = declarative 'plain output + newline/indent before wrapped markup not following Text/CData', depth saturates at 0, read-back "
                "with whitespace-only text dropped equals the plain read-back. (B) the same sequences through Writer::new / new_with_indent, sync and async, bytes "
                "compared, real read-back compared. (C) sequences up to 60 events, nesting past the preallocated 128 indent bytes, widths 0-9. "
                "Also: ElementWriter attribute indentation (mode elem); the literal statement IndentConforms (white space only where it may appear) is what is enforced, the exact amount of indentation is reported as drift; deterministic deep nesting past 128 indent bytes. non-trivial = sequences of >= 2 events. The serde serializer's indentation is covered by the C06/C13 checks (same rule, SerdeModel)")
    acc.trusted = ["TLC", "harness/src/writer.rs"]
    _, p = mc_writer(acc, 4 if q else 5, "indent", [0, 1, 4] if q else [0, 1, 2, 4, 9], "MC_Writer-indent")
    summ, viol, _ = harness(["writer-replay", "--file", p, "--prop", acc.pid, "--out-dir", REPLAY_DIR])
    acc.add_harness(summ, viol, "B:replay event sequences")
    # attribute indentation of the element builder (new_line between attributes): only white space is added
    _, pe = mc_writer(acc, 3 if q else 4, "elem", [0, 1, 4] if q else [0, 1, 2, 4, 9], "MC_Writer-elem-c19")
    summ, viol, _ = harness(["writer-replay", "--file", pe, "--prop", acc.pid, "--out-dir", REPLAY_DIR])
    acc.add_harness(summ, viol, "B:replay ElementWriter operation lists (attribute indentation)")
    writer_traces(acc, 400 if q else 5000)
    # the serde serializer's indentation obeys the same rule: indented and plain serializations of every family value
    # (mixed text/element content included) read back as the same logical document and deserialize to equal values
    _, ps = mc_serde(acc, RT_TYPES + ["H07"], "rt", "MC_Serde-c19")
    serde_replay(acc, ps, "c19", "B:serde values x quote levels x {plain, 2 blanks, tab} x expand-empty (indentation must not touch content)")
    # a SPACE OF TYPES: every struct assembled from the catalogue of field shapes (MC_Schema), executed by the schema-driven serde client
    _, psch = mc_schema(acc, 2 if q else 3, "MC_Schema-c19")
    serde_replay(acc, psch, "c19", "B:generated types x 4 values: indented output reads back as the model document and (on the domain) to equal values")
    return acc.finish()


def c17(acc):
    """Declared or detected encodings decode to the same content as UTF-8."""
    q = acc.tier == QUICK
    acc.rule = ("(A) Encoding.tla: constructor x first bytes (no signature, UTF-8 BOM, UTF-16 BOMs, UTF-16 signatures, '<?xm', incomplete signatures) x up to 3 declarations "
                "with labels from a pool: Explicit never overridden, first labelled declaration wins over the sniff, later ones ignored. (C) with the encoding feature: "
                "(i) the same decision space enumerated on the real reader (7 prefixes x 57 declaration sequences x slice/str/buffered with first piece 4/9/whole); "
                "(ii) documents over a character pool transcoded with encoding_rs into every ASCII-compatible encoding, with/without UTF-8 BOM and declaration, "
                "slice/buffered, compared event by event with the UTF-8 original (kinds, decoded payloads, encoding in force, no BOM in events); (iii) 0xFF injected into "
                "text/attribute values of multi-byte encodings: a decoding error, never replacement characters. non-trivial = runs with a declaration or a non-UTF-8 encoding")
    acc.trusted = ["TLC", "harness/src/enc.rs", "encoding_rs tables and Encoding::for_label (uninterpreted; axiom Dec(enc, Enc(enc, s)) = s instantiated by the harness)"]
    cfg = "SPECIFICATION Spec\nINVARIANTS Inv_Explicit Inv_Precedence Inv_Bom\nCHECK_DEADLOCK FALSE\n"
    r = tlc("MC_Encoding", cfg, name="MC_Encoding", workers=4, timeout=600)
    acc.add_tlc(r, "A:MC_Encoding (exhaustive)")
    wd = work_dir("trace-C17")
    tp = os.path.join(wd, "trace.ndjson")
    args = ["enc-record", "--out", tp, "--n", 6 if q else 60, "--seed", SEED]
    summ, viol, _ = harness(args, enc=True)
    ok = validate_trace(acc, "TraceEncoding", tp, "C:traces decision space on the real reader + transcoded documents in every ASCII-compatible encoding + malformed bytes", "",
                        rerun_args=[str(a) for a in args])
    if summ:
        acc.traces += summ["traces"] if ok else 0
        acc.evaluations += summ["events"]
        acc.nontrivial += summ["nontrivial"]
        acc.samples += summ["samples"][:3]
    return acc.finish()


RT_TYPES = ["F01", "F02", "F03", "F04", "F05", "F07", "F08", "F11", "F15", "F16", "F17", "F18", "F19", "F20", "F22", "F23", "F24", "F25", "F26", "F27", "F28", "F29", "F30", "F31", "F32", "F33", "F34", "F35", "F36", "F37"]


def mc_serde(acc, types, mode, name, timeout=2500):
    cfg = f"""SPECIFICATION Spec
CONSTANTS
  Types = {{{', '.join('"%s"' % t for t in types)}}}
  Mode = "{mode}"
  Emit = TRUE
INVARIANTS Inv_SerOk Inv_WellFormed Inv_Injective Inv_Emit
CHECK_DEADLOCK FALSE
"""
    r = tlc("MC_Serde", cfg, name=name, timeout=timeout)
    acc.add_tlc(r, f"A:MC_Serde mode={mode} types={len(types)}")
    path = os.path.join(work_dir("beh-" + name), "behaviours.ndjson")
    write_ndjson(path, r.tagged.get("REPLAY", []))
    return r, path


def mc_schema(acc, maxfields, name, timeout=3000):
    """MC_Schema: every struct type assembled from the catalogue of field shapes (<= maxfields fields) x four values."""
    cfg = f"""SPECIFICATION Spec
CONSTANTS
  MaxFields = {maxfields}
  Emit = TRUE
INVARIANTS Inv_SerOk Inv_WellFormed Inv_Emit
CHECK_DEADLOCK FALSE
"""
    tiny = f"SPECIFICATION Spec\nCONSTANTS\n  MaxFields = 1\n  Emit = FALSE\nINVARIANTS Inv_Witness\nCHECK_DEADLOCK FALSE\n"
    rc = tlc("MC_Schema", tiny, name=name + "-wit", timeout=600, tags=("WITNESS",), xss="512m")
    seen = set()
    for w in rc.tagged.get("WITNESS", []):
        seen |= set(json.loads(w) if isinstance(w, str) else w)
    if {"rt", "nonrt", "ok"} - seen:
        raise ToolError(f"vacuous model: never reached: {{'rt','nonrt','ok'}} - {seen}")
    r = tlc("MC_Schema", cfg, name=name, timeout=timeout, xss="512m")
    acc.add_tlc(r, f"A:MC_Schema MaxFields={maxfields} (types assembled from the field catalogue x 4 values)")
    path = os.path.join(work_dir("beh-" + name), "behaviours.ndjson")
    write_ndjson(path, r.tagged.get("REPLAY", []))
    return r, path


def serde_replay(acc, path, aspect, leg):
    summ, viol, _ = harness(["serde-replay", "--file", path, "--prop", acc.pid, "--out-dir", REPLAY_DIR, "--aspect", aspect, "--seed", SEED])
    acc.add_harness(summ, viol, leg)


def serde_traces(acc, path, every, leg):
    wd = work_dir("trace-" + acc.pid)
    tp = os.path.join(wd, "trace.ndjson")
    args = ["serde-record", "--file", path, "--out", tp, "--every", every, "--seed", SEED]
    summ, viol, _ = harness(args)
    ok = validate_trace(acc, "TraceSerde", tp, leg, "", rerun_args=[str(a) for a in args])
    if summ:
        acc.traces += summ["traces"] if ok else 0
        acc.evaluations += summ["events"]


SERDE_TRUST = ["TLC", "harness/src/family.rs (the Rust type family; serde_json must accept every generated value for the type of the same name, else the run aborts as a tool error)",
               "harness/src/serde_leg.rs, writer::read_back", "serde derive semantics for the attributes used by the family",
               "number formatting is opaque (decimal atoms)"]


def c06(acc):
    """Serialize-then-deserialize returns the original value."""
    q = acc.tier == QUICK
    acc.rule = ("(A) MC_Serde: every value of 16 family types (every documented mapping row) from finite generators over a markup-heavy string pool, empty/singleton/longer "
                "lists, numeric extremes: serialization succeeds on the documented domain, the logical document is well-formed, and the mapping is injective on the "
                "domain (distinct values => distinct documents). (B) every value built with serde_json for the Rust type, serialized under 3 quote levels x "
                "{plain, 2 blanks, tab} indentation x expand-empty, deserialized with from_str and compared with the original. (C) the real serializer output parsed by the "
                "SPECIFICATION's reader and compared with the model's logical document. non-trivial = values whose document has more than 4 logical events")
    acc.trusted = SERDE_TRUST
    _, p = mc_serde(acc, RT_TYPES, "rt", "MC_Serde-rt")
    serde_replay(acc, p, "c06", "B:replay values x 18 option combinations (round trip)")
    # a SPACE OF TYPES: every struct assembled from the catalogue of field shapes (MC_Schema), executed by the schema-driven serde client
    _, psch = mc_schema(acc, 2 if q else 3, "MC_Schema-c06")
    serde_replay(acc, psch, "c06", "B:generated types x 4 values x 18 option combinations (round trip on the documented domain)")
    serde_traces(acc, p, 4 if q else 1, "C:real serializer output parsed by the spec reader")
    return acc.finish()


def c13(acc):
    """The serializer emits only well-formed XML that carries the data unchanged."""
    q = acc.tier == QUICK
    acc.rule = ("(A) MC_Serde in mode 'all': the family values plus hostile strings (blank-only, NUL, newline, '>', markup) and the hostile map type with arbitrary keys; "
                "the model's document is properly nested with legal names or the model rejects. (B) real output under every option combination must be an error or "
                "parse without error (reader + attribute iteration), be properly nested and read back as exactly the model's logical document (injection freedom: "
                "names/structure never depend on payloads). (C) real output parsed by the spec reader. non-trivial = documents with more than 4 logical events")
    acc.trusted = SERDE_TRUST
    _, p = mc_serde(acc, RT_TYPES + ["H01", "H02", "H05", "H06", "H07"], "all", "MC_Serde-all")
    serde_replay(acc, p, "c13", "B:replay values incl. hostile (well-formedness, data carried)")
    # a SPACE OF TYPES: every struct assembled from the catalogue of field shapes (MC_Schema), executed by the schema-driven serde client
    _, psch = mc_schema(acc, 2 if q else 3, "MC_Schema-c13")
    serde_replay(acc, psch, "c13", "B:generated types x 4 values (well-formed, legal names, read-back = model document)")
    serde_traces(acc, p, 6 if q else 1, "C:real serializer output parsed by the spec reader")
    return acc.finish()


def c14(acc):
    """Deserializing from a string and from any reader gives the same result."""
    q = acc.tier == QUICK
    acc.rule = ("(A) inherited: Source.tla (chunk independence of the event stream, MC_Source) - run here with the default configuration; (B) every serialized family "
                "value deserialized with from_str and with from_reader over piece sizes 1,2,3,7 and random cuts: both fail or both succeed with equal values; plus the "
                "mutated/truncated documents of the C07 leg. Also: each document with a byte-order mark, a UTF-8 declaration, both, and with namespace-prefixed element names; reader-level traces of BOM documents in arbitrary pieces validated with SniffLen (known finding C14-1). non-trivial = documents with more than 4 logical events")
    acc.trusted = SERDE_TRUST
    mc_source(acc, 2, faults=False, name="MC_Source-c14")
    _, p = mc_serde(acc, RT_TYPES if not q else RT_TYPES[:10], "rt", "MC_Serde-c14")
    serde_replay(acc, p, "c14", "B:from_str vs from_reader under chunkings")
    # documents with comments, PIs, CDATA, DOCTYPE, references, truncation ... (valid and not): token soups and rewritten family documents
    # (4 tokens: root, an element the target skips, something ill-formed inside it: what the two entry points make of it must agree)
    _, ps = mc_de(acc, "soup", 4, ["F02"], "MC_De-c14soup")
    de_replay(acc, ps, "soup", "B:token soups: from_str vs from_reader (piece sizes 1,2,3,7)", extra=["--sizes", "1,2,3,7"])
    if not q:
        de_replay(acc, ps, "soup", "B:token soups, quick-xml built without overlapped-lists", extra=["--sizes", "1,3"], flavour="nool")
    _, pr = mc_de(acc, "rewrite", 1, ["F02", "F07", "F16"] if q else RT_TYPES, "MC_De-c14rw")
    de_replay(acc, pr, "rewrite", "B:rewritten family documents: from_str vs from_reader (piece sizes 1,2,3,7)", extra=["--sizes", "1,2,3,7"])
    _, prs = mc_de(acc, "rewriteS", 2, ["-"], "MC_De-c14rwS")
    de_replay(acc, prs, "rewrite", "B:rewritten documents of generated types: from_str vs from_reader (piece sizes 1,3)", extra=["--sizes", "1,3"])
    # a SPACE OF TYPES: every struct assembled from the catalogue of field shapes (MC_Schema), executed by the schema-driven serde client
    _, psch = mc_schema(acc, 2, "MC_Schema-c14")
    serde_replay(acc, psch, "c14", "B:generated types: from_str vs from_reader under chunkings and presentations")
    # reader level: documents with a byte-order mark in arbitrary pieces, validated against XmlRead with SniffLen (deviation C14-1)
    trace_reader(acc, 200 if q else 2000, "doc,mut,corpus", "bom", sources="all", max_len=300 if q else 2000)
    return acc.finish()


def mc_de(acc, mode, N, types, name, skip_doctype=True, emit=True, timeout=3000):
    cfg = f"""SPECIFICATION Spec
CONSTANTS
  Mode = "{mode}"
  N = {N}
  Emit = {"TRUE" if emit else "FALSE"}
  SkipDoctype = {"TRUE" if skip_doctype else "FALSE"}
  Types = {{{', '.join('"%s"' % t for t in types)}}}
INVARIANTS Inv_NoTwoTexts Inv_DeBounded Inv_RootSeqEnds Inv_RootSeqWitness Inv_NilScope Inv_Rewrite Inv_BaseReadsBack Inv_Inter Inv_ResolverRun{' Inv_Emit' if emit else ''}
CHECK_DEADLOCK FALSE
"""
    r = tlc("MC_De", cfg, name=name, timeout=timeout, xss="512m")
    acc.add_tlc(r, f"A:MC_De mode={mode} N={N} types={len(types)}")
    path = None
    if emit:
        path = os.path.join(work_dir("beh-" + name), "behaviours.ndjson")
        write_ndjson(path, r.tagged.get("REPLAY", []))
    return r, path


def de_replay(acc, path, mode, leg, extra=(), flavour=False):
    summ, viol, _ = harness(["de-replay", "--file", path, "--prop", acc.pid, "--out-dir", REPLAY_DIR, "--mode", mode, "--seed", SEED, *extra], enc=flavour)
    acc.add_harness(summ, viol, leg)


def c07(acc):
    """Deserialization is total: a value or an error, never a panic."""
    q = acc.tier == QUICK
    acc.rule = ("(A) DeSM.tla: the deserializer's event pipeline (StartTrimmer, XmlReader lookahead / drain_text) on every token soup of <= N tokens over 15 tokens "
                "(tags, text, blanks, CDATA, comment, PI, DOCTYPE, entity references incl. unknown, attributes, xsi:nil): the DeEvent stream never holds two "
                "consecutive Text events (the lemma behind the unreachable!() sites), ends in Eof or an error, is bounded. (B) every soup (and, in the thorough tier, "
                "every truncation of it) deserialized into all 20 family types + String, numbers, bool, (), Option, Vec, tuple, HashMap, IgnoredAny-containing "
                "types through from_str and from_reader under catch_unwind; (C-style) token-level mutations and every-byte truncations of serialized family values. "
                "Also: content under a bound xsi:nil (mode nil) with Option-valued $value/$text targets, text-run shapes (mode textrun), a build without overlapped-lists. non-trivial = soups with >= 2 markup tokens")
    acc.trusted = SERDE_TRUST + ["a concrete panic is found by running the code; the spec supplies shapes and the justifying lemma"]
    _, p = mc_de(acc, "soup", 4 if q else 5, ["F02"], "MC_De-soup")
    # target types: the hand-written family + std shapes + 40 [120] types given as data (spread over MC_Schema's type space)
    _, psch = mc_schema(acc, 2 if q else 3, "MC_Schema-c07")
    sch = ["--schemas", psch, "--max-schemas", 40 if q else 120]
    de_replay(acc, p, "soup", "B:token soups x all target types x from_str/from_reader", extra=["--mutate", 0, "--stride", 1 if q else 6] + sch)
    if not q:
        # every truncation of the shorter soups (the 5-token space with truncations does not finish in an hour)
        _, p4 = mc_de(acc, "soup", 4, ["F02"], "MC_De-soup4")
        de_replay(acc, p4, "soup", "B:every-byte truncations of token soups x all target types", extra=["--mutate", 1, "--stride", 8] + sch)
    # text runs inside an element: text / blanks / CDATA / comment / DOCTYPE / reference / end tag, up to 6 [7] pieces
    _, pt = mc_de(acc, "textrun", 5 if q else 6, ["F02"], "MC_De-textrun")
    de_replay(acc, pt, "soup", "B:text-run shapes inside an element x all target types", extra=sch + ["--stride", 1 if q else 8])
    de_replay(acc, p, "soup", "B:token soups, quick-xml built without overlapped-lists", flavour="nool", extra=["--stride", 1 if q else 12])
    # content inside an element carrying a bound xsi:nil="true" (treated as absent by the Option logic)
    _, pn = mc_de(acc, "nil", 4 if q else 5, ["F02"], "MC_De-nil")
    de_replay(acc, pn, "soup", "B:content under xsi:nil x all target types", extra=sch)
    # the event-buffer limit (Deserializer::event_buffer_size) on documents whose list items are interleaved, also on two levels:
    # whatever the limit, a value or an error - never a panic (the error path of one access and the Drop of another cooperate)
    _, pil = mc_de(acc, "interleave", 1, ["F22", "F23", "F26", "F29", "F33", "F34", "F35", "F36", "F37"], "MC_De-inter-c07")
    de_replay(acc, pil, "interleave", "B:interleaved list documents x every event-buffer limit: no panic")
    _, p2 = mc_de(acc, "rewrite", 1, ["F05", "F15", "F22"] if q else RT_TYPES, "MC_De-bases", timeout=3000)
    summ, viol, _ = harness(["de-mutate", "--file", p2, "--prop", acc.pid, "--out-dir", REPLAY_DIR, "--seed", SEED, "--per-doc", 3 if q else 20])
    acc.add_harness(summ, viol, "C:token-level mutations and every-byte truncations of serialized values")
    # the `encoding` build: documents that DECLARE a single-byte encoding, with its letters in element and attribute names of
    # every length (keys are decoded into a reused buffer), through from_reader
    summ, viol, _ = harness(["de-mutate", "--file", p2, "--prop", acc.pid, "--out-dir", REPLAY_DIR, "--seed", SEED, "--per-doc", 1], enc=True)
    acc.add_harness(summ, viol, "C:the same on the encoding build + documents that declare a single-byte encoding")
    return acc.finish()


def c15(acc):
    """Deserialized values do not depend on lexical presentation."""
    q = acc.tier == QUICK
    acc.rule = ("(A) MC_De rewrite mode: for every generated value of the listed family types, the serialized document under EVERY single rewrite at every applicable "
                "site (comment / PI between any two tokens and inside text, whitespace between siblings of element-only content, text as CDATA, as decimal/hex "
                "character references, <x/> vs <x></x>, attribute order, quote kind, spacing, prolog + leading comment, trailing comment/PI) and several "
                "compositions: the DeEvent stream (names, attribute sets, merged unescaped text) is unchanged. (B) every rewritten document (incl. unknown attribute, "
                "unknown first/last child where the type ignores unknown fields) deserialized with from_str must equal the original value. "
                "Also: unknown children whose children repeat their name, two insertions in one text run, a quick-xml built without overlapped-lists, chunked from_reader, schema-less AnyNode view. non-trivial = values with more than 10 rewritten documents")
    acc.trusted = SERDE_TRUST
    types = ["F02", "F05", "F07", "F11", "F16", "F19", "F22"] if q else RT_TYPES
    _, p = mc_de(acc, "rewrite", 1, types, "MC_De-rewrite", timeout=3400)
    de_replay(acc, p, "rewrite", "B:rewritten documents deserialize to the original value", extra=["--sizes", ""])
    # the deserializer's other build variant (feature overlapped-lists off) skips unknown subtrees with different code
    de_replay(acc, p, "rewrite", "B:the same with a quick-xml built without overlapped-lists", extra=["--sizes", ""], flavour="nool")
    # ignored (unknown) siblings that declare namespaces, of every content shape: they never change whether `xsi:nil` applies to a known element
    _, pns = mc_de(acc, "nilscope", 1, ["F02"], "MC_De-nilscope")
    de_replay(acc, pns, "soup", "B:ignored siblings with namespace declarations x content shapes: xsi:nil judged in the scope of the known element")
    de_replay(acc, pns, "soup", "B:the same with a quick-xml built without overlapped-lists", flavour="nool")
    # text runs under a CUSTOM entity resolver (from_str_with_resolver / with_resolver): references in the first and in later pieces of a run
    _, ptr = mc_de(acc, "textrunR", 4 if q else 5, ["F02"], "MC_De-textrunR")
    de_replay(acc, ptr, "soup", "B:text runs under a custom entity resolver: String target = the specification's text", extra=["--sizes", "2"])
    # the same rewrites over GENERATED types (SchemaGen: every struct of <= 1 [2] fields on the round-trippable domain x 4 values)
    _, psr = mc_de(acc, "rewriteS", 2 if q else 3, ["-"], "MC_De-rewriteS", timeout=3400)
    de_replay(acc, psr, "rewrite", "B:rewritten documents of generated types deserialize to the generated value", extra=["--sizes", "3"])
    # ... and with the encoding feature (every text piece / CDATA / attribute value is decoded separately)
    de_replay(acc, p, "rewrite", "B:the same with a quick-xml built with the encoding feature", extra=["--sizes", ""], flavour=True)
    return acc.finish()


def c20(acc):
    """Overlapped lists: interleaving siblings does not change the result."""
    q = acc.tier == QUICK
    acc.rule = ("(A) MC_De interleave mode: for every generated value of the structs with two/three list fields (scalars, attribute, nested same-named children), "
                "every order-preserving interleaving of the children; the queue model DeSM!Held gives the number of events that must be buffered. (B) each interleaved "
                "document deserialized without limit (must equal the value) and with event_buffer_size = 1..total+1: the value or TooManyEvents, TooManyEvents "
                "whenever Held > limit, monotone in the limit. non-trivial = interleavings that need buffering")
    acc.trusted = SERDE_TRUST
    _, p = mc_de(acc, "interleave", 1, ["F22", "F23", "F26", "F29", "F33", "F34", "F35", "F36", "F37"], "MC_De-inter")
    de_replay(acc, p, "interleave", "B:interleavings x buffer limits")
    return acc.finish()


def run_check(pid, tier):
    fn = REGISTRY.get(pid)
    if fn is None:
        log(f"{pid}: no check registered")
        return 2
    os.makedirs(REPLAY_DIR, exist_ok=True)
    for f in os.listdir(REPLAY_DIR):
        if f.startswith(pid + "-"):
            os.remove(os.path.join(REPLAY_DIR, f))
    acc = Acc(pid, tier)
    return fn(acc)


def replay(pid, path):
    v = json.load(open(path))
    kind = v.get("kind")
    if kind == "reader-replay":
        b = build_harness(False)
        p = subprocess.run([b, "reader-rerun", "--file", path], cwd=ROOT)
        return p.returncode
    if kind == "escape-replay":
        p = subprocess.run([build_harness(False), "escape-rerun", "--file", path], cwd=ROOT)
        return p.returncode
    if kind == "de-replay":
        fl = v.get("flavour", "noenc")
        p = subprocess.run([build_harness(False if fl == "noenc" else (True if fl == "enc" else fl)), "de-rerun", "--file", path], cwd=ROOT)
        return p.returncode
    if kind == "serde-replay":
        p = subprocess.run([build_harness(False), "serde-rerun", "--file", path], cwd=ROOT)
        return p.returncode
    if kind == "writer-replay":
        p = subprocess.run([build_harness(False), "writer-rerun", "--file", path], cwd=ROOT)
        return p.returncode
    if kind == "ns-replay":
        p = subprocess.run([build_harness(False), "ns-rerun", "--file", path], cwd=ROOT)
        return p.returncode
    if kind == "attrs-replay":
        p = subprocess.run([build_harness(False), "attrs-rerun", "--file", path], cwd=ROOT)
        return p.returncode
    if kind == "rejected-trace":
        log(json.dumps(v["run_records"][: v["first_unmatched_record"] + 2], indent=0)[:4000])
        log("re-record with: qxv " + " ".join(v.get("rerecord_args") or []))
        return 1
    log(json.dumps(v, indent=1)[:6000])
    return 1


REGISTRY = {"C01": c01, "C02": c02, "C03": c03, "C04": c04, "C05": c05, "C06": c06, "C07": c07, "C08": c08, "C09": c09, "C10": c10, "C11": c11, "C12": c12, "C13": c13, "C14": c14, "C15": c15, "C16": c16, "C17": c17, "C18": c18, "C19": c19, "C20": c20}
