"""Per-property checks. Each = (A) TLC on the spec, (B) spec->impl replay, (C) impl->spec trace validation."""
import json, os, subprocess, sys, time
from vlib import *          # noqa

QUICK = "quick"


def setup():
    t0 = time.time()
    build_harness(False)
    build_harness(True)
    # parse every module
    bad = 0
    for f in sorted(os.listdir(SPEC)):
        if not f.endswith(".tla"):
            continue
        p = subprocess.run(["java", "-cp", TLA_CP, "tla2sany.SANY", f], cwd=SPEC, stdout=subprocess.PIPE,
                           stderr=subprocess.STDOUT, text=True)
        ok = p.returncode == 0 and "error" not in p.stdout.lower().replace("semantic errors:\n\n", "")
        if not ok and ("Fatal" in p.stdout or "*** Errors" in p.stdout or "Semantic errors" in p.stdout and "Could not" in p.stdout):
            log(f"[setup] SANY failed on {f}:\n{p.stdout[-1500:]}")
            bad += 1
    log(f"[setup] done in {time.time()-t0:.1f}s")
    return 2 if bad else 0


# =========================================================================== reader group
def devs_tla(prop=None):
    ds = sorted({k["deviation"] for k in open_deviations()})
    return "{" + ", ".join('"%s"' % d for d in ds) + "}"


def mc_reader(acc, K, mode, invs, emit=True, frag="markup", name="MC_Reader", timeout=1700, leg="A:MC_Reader"):
    cfg = f"""SPECIFICATION Spec
CONSTANTS
  K = {K}
  CfgMode = "{mode}"
  FragMode = "{frag}"
  Emit = {"TRUE" if emit else "FALSE"}
  KnownDevs = {devs_tla()}
INVARIANTS {' '.join(invs + (['Inv_Emit'] if emit else []))}
CHECK_DEADLOCK FALSE
"""
    r = tlc("MC_Reader", cfg, name=name, timeout=timeout)
    acc.add_tlc(r, f"{leg} K={K} cfgs={mode} frags={frag} invariants={','.join(invs)}")
    path = None
    if emit:
        path = os.path.join(work_dir("beh-" + name), "behaviours.ndjson")
        write_ndjson(path, r.tagged.get("REPLAY", []))
        if not r.tagged.get("REPLAY") and r.ok:
            raise ToolError("TLC emitted no behaviours")
    return r, path


def replay_reader(acc, path, mode, extra=(), enc=False, leg=None):
    if path is None:
        return
    summ, viol, _ = harness(["reader-replay", "--file", path, "--mode", mode, "--prop", acc.pid, "--out-dir", REPLAY_DIR,
                             "--seed", SEED, *extra], enc=enc)
    acc.add_harness(summ, viol, leg or f"B:replay {mode}{' (encoding feature on)' if enc else ''}")


def validate_trace(acc, module, trace_path, leg, consts, timeout=1700, rerun_args=None):
    cfg = f"""SPECIFICATION TSpec
CONSTANTS
{consts}
INVARIANTS TInv_Pos
POSTCONDITION Accepted
CHECK_DEADLOCK FALSE
"""
    r = tlc(module, cfg, name=module + "-" + acc.pid, workers=1, timeout=timeout, env={"TRACE": trace_path}, xmx="6g", xss="1g",
            deque=True, tags=("TRACE", "DEVUSED"))
    tr = r.tagged.get("TRACE", [])
    matched = total = 0
    if tr:
        t = json.loads(tr[-1]) if isinstance(tr[-1], str) else tr[-1]
        matched, total = t["matched"], t["total"]
    acc.states += r.distinct
    acc.transitions += r.generated
    acc.cmds.append(r.cmd)
    for d in r.tagged.get("DEVUSED", []):
        for x in (json.loads(d) if isinstance(d, str) else d):
            acc.known_used[x] = acc.known_used.get(x, 0) + 1
    ok = r.violated is None and r.error is None and matched == total and total > 0
    acc.legs.append({"leg": leg, "tool": "TLC trace validation", "events_matched": matched, "events_total": total,
                     "wall_s": round(r.wall, 1), "ok": ok})
    log(f"[{acc.pid}] {leg}: TLC matched {matched}/{total} trace records in {r.wall:.1f}s")
    if not ok:
        # the run that contains the first unmatched record
        recs = [json.loads(l) for l in open(trace_path)]
        i = min(matched, len(recs) - 1)
        j = max([k for k in range(i + 1) if recs[k].get("t") == "Reset"] or [0])
        e = next((k for k in range(i + 1, len(recs)) if recs[k].get("t") == "Reset"), len(recs))
        os.makedirs(REPLAY_DIR, exist_ok=True)
        path = os.path.join(REPLAY_DIR, f"{acc.pid}-trace-{len(acc.violations)}.json")
        json.dump({"property": acc.pid, "kind": "rejected-trace", "module": module, "first_unmatched_record": i - j,
                   "violated_invariant": r.violated, "run_records": recs[j:e], "rerecord_args": rerun_args,
                   "tlc_tail": r.out[-3000:] if r.violated else ""}, open(path, "w"), indent=1)
        line = f"VIOLATION property={acc.pid} replay={path}"
        log(line)
        acc.violations.append(line)
    return ok


def trace_reader(acc, n, kinds, script, sources="all", max_len=400, enc=False, leg=None, seed_off=0):
    wd = work_dir("trace-" + acc.pid + ("-enc" if enc else "") + f"-{seed_off}")
    tp = os.path.join(wd, "trace.ndjson")
    args = ["reader-record", "--out", tp, "--n", n, "--kinds", kinds, "--script", script, "--sources", sources,
            "--max-len", max_len, "--seed", SEED + seed_off]
    summ, viol, _ = harness(args, enc=enc)
    leg = leg or f"C:traces kinds={kinds} script={script} sources={sources}{' enc' if enc else ''}"
    ok = validate_trace(acc, "TraceReader", tp, leg, f"  Deviations = {devs_tla()}", rerun_args=[str(a) for a in args])
    if summ:
        acc.traces += summ["traces"] if ok else 0
        acc.evaluations += summ["events"]
        acc.nontrivial += summ["nontrivial"]
        for s in summ["samples"][:2]:
            if len(acc.samples) < 8:
                acc.samples.append(s)


READER_TRUST = ["TLC 1.8 evaluates the specification correctly",
                "harness projection (harness/src/obs.rs) reports what the reader returned",
                "bounded scope: inputs of <= K fragments over the markup alphabet plus seeds; traces are samples"]


def c01(acc):
    """Reader events match the lexical structure."""
    q = acc.tier == QUICK
    acc.rule = ("(A/B) every byte string that is a concatenation of <= K fragments over 20 markup-significant fragments plus 13 curated seeds, "
                "under the listed configurations; non-trivial = distinct (input,config) whose expected stream has at least one event other than Text/Eof. "
                "(C) generated/mutated/random/corpus documents; non-trivial = distinct inputs with a markup event")
    acc.trusted = READER_TRUST
    inv = ["Inv_RefMatch", "Inv_Total", "Inv_Nesting"]
    _, p = mc_reader(acc, 3 if q else 4, "cover", inv, name="MC_Reader-cover")
    replay_reader(acc, p, "slice")
    if not q:
        replay_reader(acc, p, "slice", enc=True)
        _, p2 = mc_reader(acc, 3, "all", inv, name="MC_Reader-all", timeout=3000)
        replay_reader(acc, p2, "slice")
    else:
        _, p2 = mc_reader(acc, 2, "all", inv, name="MC_Reader-all")
        replay_reader(acc, p2, "slice")
        replay_reader(acc, p2, "slice", enc=True)
    trace_reader(acc, 400 if q else 3000, "doc,mut,rand,corpus", "plain", sources="slice", max_len=600 if q else 4000)
    return acc.finish()


def run_check(pid, tier):
    fn = REGISTRY.get(pid)
    if fn is None:
        log(f"{pid}: no check registered")
        return 2
    os.makedirs(REPLAY_DIR, exist_ok=True)
    for f in os.listdir(REPLAY_DIR):
        if f.startswith(pid + "-"):
            os.remove(os.path.join(REPLAY_DIR, f))
    acc = Acc(pid, tier)
    return fn(acc)


def replay(pid, path):
    v = json.load(open(path))
    kind = v.get("kind")
    if kind == "reader-replay":
        b = build_harness(False)
        p = subprocess.run([b, "reader-rerun", "--file", path], cwd=ROOT)
        return p.returncode
    if kind == "rejected-trace":
        log(json.dumps(v["run_records"][: v["first_unmatched_record"] + 2], indent=0)[:4000])
        log("re-record with: qxv " + " ".join(v.get("rerecord_args") or []))
        return 1
    log(json.dumps(v, indent=1)[:6000])
    return 1


REGISTRY = {"C01": c01}
