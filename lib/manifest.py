#!/usr/bin/env python3
"""Generates /verif/MANIFEST.json from the table below (python3 lib/manifest.py)."""
import json, os, sys

ROOT = os.path.dirname(os.path.dirname(os.path.abspath(__file__)))

# property id -> (technique, level text, level note, design ref)
CHECKS = {
    "C01": ("TLA+ spec (XmlLex grammar vs XmlRead machine) model-checked with TLC; TLC-generated behaviours replayed on the real reader; recorded traces validated by TLC",
            "TLC checks exhaustively, for every byte string of <= K markup fragments (plus seeds) under a covering set / all 128 configurations, that the call-by-call reader machine returns exactly the events of the declarative lexical grammar; every such behaviour (input, config, expected event/position after each call) is then executed on the real Reader (from_reader and from_str, with and without the encoding feature) and compared field by field; traces recorded from the real reader on generated, mutated, random and corpus documents are validated against the same spec by TLC.",
            "Bounded scope for the exhaustive legs (K fragments); recorded traces are samples. The code is bound by observation at call returns, not by proof. TLC and the harness projection (harness/src/obs.rs) are trusted.",
            "DESIGN.md section 6 C01"),
    "C02": ("TLA+ spec of the buffered XmlSource with one action per fill_buf (Source.tla) model-checked against the one-chunk semantics for every cut sequence; replay on BufRead/AsyncBufRead sources under all cuts; trace validation",
            "TLC explores Source.tla - the chunked scanner machine with its carries (buf, read counter, quote state, '?' flag, DOCTYPE balance, split-terminator cases) - for every input of <= K fragments under EVERY way of cutting it into pieces (cut chosen at each refill) and checks at every call return that event, payload, error, offset and parse state equal the one-chunk semantics, plus inductive-style invariants (buf = bytes of the item, carry = declarative scanner state). TLC-generated behaviours are executed on the real buffered and tokio async readers under all 2^(n-1) cuts (short inputs) / sizes 1,2,3,7+random (long) and three Pending patterns; recorded traces over all source kinds are validated by TLC.",
            "BOM/encoding sniff excluded as the property allows (first piece >= 4 bytes). Bounded scope; code bound by observation.",
            "DESIGN.md section 6 C02"),
    "C03": ("TLA+ reader spec with totality/position invariants model-checked over markup and byte-class alphabets; replay with every payload accessor under catch_unwind; random-byte trace validation",
            "TLC checks on the reader machine that every call returns an event or an error, Eof and syntax errors are final, the number of calls is <= len+3, positions are monotone, bounded by the input length and error_position <= buffer_position - for all inputs of <= K fragments over a markup alphabet and over a byte-class alphabet (NUL, 0x80, 0xFF ...), all configurations. Every behaviour is executed on the real reader (slice, str, chunked, async; with and without the encoding feature) with every payload accessor exercised under catch_unwind; random 256-value inputs, mutated and corpus documents with configuration flips are recorded and validated; a panic is data and is rejected.",
            "A concrete panic is found by running the code; the spec supplies the result domain, the shapes and the invariants. Bounded scope; samples beyond.",
            "DESIGN.md section 6 C03"),
    "C04": ("TLA+ spec of call histories (Read / config flip / skip) model-checked against a history-independent reference computed from the TRUE nesting; histories replayed on the real reader; trace validation with random flips",
            "TLC explores MC_ReaderOps: tag sequences over names a/ab/b, '</a >', '<a/>', look-alike end tags, under all 16 settings of the four related switches and toggles of them at any point of the call history, and checks that every result equals the documented transformation under the configuration in force NOW judged against the true nesting of the consumed prefix, and that the machine's stack equals that nesting. Every generated history is replayed on the real reader (slice/str/buffered/async) including config_mut() flips; traces with random flips are validated by TLC.",
            "Bounded scope (L fragments, <= 2 flips exhaustively; random flips in traces).",
            "DESIGN.md section 6 C04"),
    "C05": ("TLA+ spec of NamespaceResolver/NsReader (NsScope.tla, composed with the reader and attribute specs) model-checked against a declarative nearest-declaration scope for all consumer histories; replay on the real NsReader; trace validation",
            "TLC explores MC_Ns: properly nested documents of <= L tag-level fragments (default and prefixed declarations, re-declaration, un-declaration, shadowing on one tag, prefixed attributes, empty elements) under every history of read-event / skip calls, and checks after every call that resolve_element/resolve_attribute for a pool of names (unprefixed, p:, q:, xml:, xmlns:), prefixes() and the nesting level equal the declarative scope derived from the TRUE nesting of the document. Every (document, history) is replayed on the real NsReader over slice (read_event, read_resolved_event, read_to_end, read_text), buffered and async sources; random deeper documents and histories are validated by TLC. This check found the never-popped scope after read_to_end/read_text repaired in /repo.",
            "Error-free reads of properly nested documents only (as the property states); after a namespace error the run ends. Bounded scope.",
            "DESIGN.md section 6 C05"),
    "C06": ("TLA+ model of the documented serde mapping (SerdeModel/SerdeTypes: schema registry of the type family, SerTree) model-checked for success, well-formedness and injectivity on the domain; every generated value round-tripped through the real serializer/deserializer under all option combinations; real output parsed by the spec's reader",
            "TLC enumerates every value of 16 family types (one per documented mapping row: attributes, elements, text, optional fields, element lists, space-separated lists, unit/newtype/struct/text enum choices, mixed lists without adjacent text items, nested structs, maps) from finite generators over a markup-heavy string pool and checks on the model that serialization succeeds on the documented domain, the document is well-formed, and distinct values have distinct documents. The harness builds each value for the Rust type (serde_json), serializes it under 3 quote levels x {plain, blanks, tab} indentation x expand-empty, deserializes with from_str and compares with the original (typed equality); the real output is additionally parsed by the SPECIFICATION's reader (TraceSerde) and compared with the model's logical document. This check found the inverted allow_primitive defect repaired in /repo.",
            "Domain exclusions, each from the documentation: strings with leading/trailing XML whitespace, empty or blank-containing items of space-separated lists, an empty $text choice (writes no node). Number formatting is opaque. Deserialization itself is bound by observation (real round trip), the model decides the serializer side and the value space.",
            "DESIGN.md section 6 C06"),
    "C07": ("TLA+ model of the deserializer's event pipeline (DeSM.tla: StartTrimmer, XmlReader lookahead/drain_text) with the lemma 'never two consecutive Text events' model-checked on all token soups; the soups, their truncations and token-level mutations of serialized values run through every target type under catch_unwind",
            "TLC checks on DeSM.tla, for every token soup of <= N tokens (tags, text, blanks, CDATA, comment, PI, DOCTYPE, known/unknown entity references, attributes, xsi:nil), that the DeEvent stream never contains two consecutive Text events - the design lemma that justifies the unreachable!() sites - ends in Eof or an error and is bounded; with the pre-repair handling of DOCTYPE (SkipDoctype = FALSE) TLC produces the counterexample text, DOCTYPE, text. Every soup is deserialized into all 20 family types and String, numbers, bool, (), Option, Vec, tuple, HashMap, IgnoredAny-containing types through from_str and from_reader under catch_unwind; token-level mutations and every-byte truncations of serialized family values as well. This check found the panic repaired in /repo.",
            "A concrete panic is found by running the code; the model supplies the shapes and the lemma. Consumer-side logic (visitors) is exercised, not modelled.",
            "DESIGN.md section 6 C07"),
    "C08": ("TLA+ reader spec with tiling invariant and composed writer rendering model-checked; positions and read-then-write bytes replayed on the real reader/writer; corpus trace validation",
            "TLC checks that with trimming/expansion off the bytes between consecutive positions are exactly open delimiter + payload + close delimiter of the returned event (DOCTYPE up to keyword case/spacing), that spans tile the input and the final position is its length. TLC emits for every behaviour the positions and the concatenated rendering of all events; the harness compares buffer_position after every call and the bytes produced by Writer::write_event on slice and chunked sources. Corpus and generated traces are validated by TLC.",
            "Bounded scope; Writer::write_event is specified only for events read from the input (C09 covers constructors).",
            "DESIGN.md section 6 C08"),
    "C09": ("TLA+ spec of the event constructors, ElementWriter and Writer (Writer.tla) composed with the reader/attribute/escape specs; construction sequences model-checked for read-back identity; replay with the real constructors and writers; trace validation",
            "TLC explores every sequence of <= M construction descriptors (BytesStart::new with push/extend/clear/set_name edits, BytesText::new, BytesCData::escaped, comments, PIs, BytesDecl::new, DOCTYPE, ElementWriter) with payloads from a markup-heavy pool and checks that the bytes the writer spec produces read back - through the reader, attribute and escape specs - as exactly the constructed logical events (text coalesced, empty dropped, every attribute value/text unescaping to the original). The same sequences are built with the real constructors, written with the sync and async writers (bytes must be equal), read back with the real reader and compared with the spec's logical events; random longer sequences are validated by TLC.",
            "Constructor preconditions as documented. Exact output spelling is tagged I (drift), read-back identity and sync=async are P.",
            "DESIGN.md section 6 C09"),
    "C10": ("TLA+ transcription of escape/unescape/parse_number (Escape.tla) with round-trip theorems model-checked; TLC-generated strings replayed on the real functions; real results (incl. all code points in both radices) validated by TLC",
            "TLC checks on Escape.tla, for every string of <= N symbols over the five special characters, '#', 'x', ';', digits, letters, blank and a multi-byte character: unescape(escape_l(s)) = s for every level, the escaped form is free of the level's characters, no '&' => unchanged, success => every '&' closed. Every string is run through the real escape/partial_escape/minimal_escape/unescape (value, error-vs-value, borrowed flag, real round trip). The harness sweeps all code points 0..0x110400 in decimal, lower/upper hex and zero-padded spellings through the real unescape and TLC evaluates ValidScalar on every one of them, plus boundary spellings (signs, empty, overflow, missing ';') with output bytes checked against Utf8(n).",
            "EscapeError variant is tagged I (the property only requires an error). Feature escape-html off. The harness decides 'result is exactly the character n' with char::from_u32 for the sweep; output bytes of boundary spellings are checked by TLC.",
            "DESIGN.md section 6 C10"),
    "C11": ("TLA+ spec of the attribute iterator (Attrs.tla) model-checked on all short tag contents and against constructed attribute lists with injected faults; replay on the real Attributes iterator; generated-list trace validation",
            "TLC checks Attrs.tla (i) on every tag content of <= N bytes over {SP,TAB,=,\",',a,b,/} x XML/HTML x checks on/off: iteration ends and stays ended, every yielded key/value span is exact (delimited by the right quotes, no quote inside), HTML mode only adds, duplicate discipline; (ii) against attribute lists CONSTRUCTED from parts with one fault of each kind injected at every position, where the expected items (documented error, documented position, every well-formed attribute after the fault intact) are known by construction. All cases are iterated with the real iterator (to None and three calls beyond) and compared item by item; generated lists of 0-8 attributes with faults are validated by TLC. This check found the Duplicated-recovery defect repaired in /repo commit a46692e.",
            "Bounded scope (N, MaxAttrs); traces are samples.",
            "DESIGN.md section 6 C11"),
    "C12": ("TLA+ spec of read_to_end/read_text (loop over the reader machine) model-checked against a declarative tree-based reference; histories with skip calls replayed on all read_to_end variants; trace validation",
            "TLC explores documents of <= L tag-level fragments (repeated names, <a/>, '</a >', end-tag look-alikes inside comment/CDATA, truncated documents) x trim/expand configurations x skip after any Start (and flips), and checks the returned span, the position after the call, the failure kinds and the span delimiters against a reference derived from the declarative event stream. Every history is replayed on read_to_end, read_to_end_into, read_to_end_into_async and read_text with config() read back after success and failure; traces with random skip calls are validated by TLC.",
            "Skip calls are issued only right after a Start event (the documented precondition). Bounded scope.",
            "DESIGN.md section 6 C12"),
    "C13": ("TLA+ model of the serializer's logical output (SerTree with XmlName validation) model-checked for nesting and name legality over family + hostile values; real output checked for well-formedness, legal names and equality with the model's logical document (harness and spec reader)",
            "TLC enumerates the family values with hostile strings (blank-only, NUL, newline, '>', markup), maps with arbitrary keys, Option without skip, nested sequences, unit variants named like markup and arbitrary root tags, and checks that the model either rejects or yields a properly nested document whose names are XML names. For every value and option combination the real serializer must fail or produce output that the real reader parses without error, whose attribute lists iterate without error, whose names are legal and which reads back as exactly the model's logical document (so no payload can introduce markup: structure and names never depend on payload bytes); the real bytes are also parsed by the spec's reader in TLC. This check found the empty-name defect repaired in /repo.",
            "For types outside the schema language the model has no opinion on acceptance (error or well-formed output are both fine).",
            "DESIGN.md section 6 C13"),
    "C14": ("Source.tla (chunk independence of the event stream) model-checked; every serialized family value and every token soup deserialized with from_str and with from_reader under piece sizes 1,2,3,7 and random cuts and compared",
            "The deserializer consumes reader events only, and Source.tla shows (TLC, all cuts) that those are independent of chunking; the harness deserializes every generated family document with from_str and with from_reader over a chunked BufRead (sizes 1,2,3,7, random) and requires both to fail or both to succeed with equal values; the C07 leg repeats the comparison on token soups, truncated and mutated documents.",
            "The buffer-reuse discipline of IoReader is bound by observation only.",
            "DESIGN.md section 6 C14"),
    "C15": ("TLA+ model: DeEvent stream of DeSM.tla invariant under every single lexical rewrite (and compositions) of serialized family values, model-checked; every rewritten document deserialized and compared with the original value",
            "TLC renders each generated family value and applies EVERY single rewrite at every applicable site - comment or PI between any two tokens and inside text, whitespace between siblings of element-only content, text as CDATA, as decimal/hexadecimal character references, <x/> vs <x></x>, attribute order, quote kind, spacing, prolog and leading comment, trailing comment/PI - plus compositions, and checks that the DeEvent stream (names, attribute sets, merged unescaped text) computed by DeSM.tla is unchanged. Every rewritten document (also with an unknown attribute and an unknown first/last child where the type ignores unknown fields) is deserialized with from_str and must equal the original value.",
            "Rewrites that change the event stream (unknown attributes/children) are decided by the real deserializer only.",
            "DESIGN.md section 6 C15"),
    "C16": ("TLA+ spec: machine stream under a configuration = documented Transform of the neutral grammar stream, model-checked for all 128 configurations; replay on the real reader; trace validation",
            "TLC checks for every input of <= K fragments and all 128 switch combinations (K small) / a pairwise-covering set (K larger) that the reader machine's events and positions equal Transform(cfg, neutral stream), where Transform states only the documented effect of each switch. The same behaviours are executed on the real reader and compared; traces with random configurations are validated. The one recorded deviation (empty Text with trim_text_end only, C16-1) is a named deviation action of the spec and is reported as KNOWN-FINDING.",
            "Bounded scope. Known finding C16-1 is accepted only in its exact recorded shape.",
            "DESIGN.md section 6 C16"),
    "C17": ("TLA+ spec of the EncodingRef state machine (Encoding.tla) model-checked exhaustively; the same decision space and transcoded documents in every ASCII-compatible encoding recorded from the real reader (encoding feature) and validated by TLC",
            "TLC checks exhaustively (constructor x first bytes x up to 3 declarations) that an Explicit encoding is never overridden, the first labelled declaration wins over the BOM sniff and later ones are ignored, only complete signatures count. The harness (built with the encoding feature) enumerates the same decision space on the real reader over slice/str/buffered sources, and reads documents transcoded by encoding_rs into every ASCII-compatible encoding (with/without BOM and declaration), comparing kinds and decoded payloads with the UTF-8 original, logging the encoding in force after every event and BOM presence; 0xFF injected into multi-byte encodings must give a decoding error. TLC validates every recorded run against Encoding.tla.",
            "Byte<->character tables and label resolution are encoding_rs's (uninterpreted; the harness instantiates the round-trip axiom). model_checking level applies to the decision machine; payload equality is trace-observed.",
            "DESIGN.md section 6 C17"),
    "C18": ("TLA+ Source.tla with Interrupted/Pending stutters and an I/O error at any refill model-checked; every refill index replayed as fault point on sync and async sources; trace validation with fault records",
            "TLC explores Source.tla with one non-interrupt I/O error allowed at any refill of any cut sequence and checks that the error surfaces as Io in a call that needed bytes beyond those delivered, with all earlier calls equal to the fault-free semantics. For every generated behaviour and five cut patterns the harness injects, at EVERY refill index, Interrupted x1/x2 (run must be identical) and a hard error (prefix + Io in the call that met it) on BufRead and AsyncBufRead sources; traces with random multi-interrupt patterns and hard errors are validated by TLC (rule: Need > delivered).",
            "Behaviour of calls after the failing call is not constrained by the property (tagged I).",
            "DESIGN.md section 6 C18"),
    "C19": ("TLA+ spec of Writer::write_event with Indentation (Writer.tla): machine vs declarative 'plain + newline/indent before markup not following Text/CData' model-checked; replay on sync/async writers; trace validation",
            "TLC checks for every sequence of <= M events over all ten kinds (unbalanced allowed, Eof last) x indent char x widths that the writer machine's output equals the declarative statement of the property (insertions only of newline + indent immediately before wrapped markup that is not first and does not follow Text/CData; depth saturating at zero), and that reading it back and dropping whitespace-only text gives the plain output's events. The sequences are written with Writer::new / new_with_indent (sync and async) and compared byte for byte, and read back with the real reader; sequences up to 60 events with nesting beyond the preallocated 128 indent bytes and widths 0-9 are validated by TLC. The serde serializer's indentation is checked by C06/C13 (indented and plain serializations deserialize to equal values).",
            "Bounded scope M; traces are samples.",
            "DESIGN.md section 6 C19"),
    "C20": ("TLA+ queue model (DeSM!Held) of the overlapped-lists replay buffers over all order-preserving interleavings generated by TLC; each interleaving deserialized without and with every buffer limit",
            "TLC generates, for every value of the structs with two and three list fields (scalar element, attribute, nested same-named children), every order-preserving interleaving of the children together with Held, the number of skipped events the write buffer must hold according to the queue model. The harness deserializes each interleaved document without limit (must equal the value whose contiguous serialization was interleaved) and with event_buffer_size = 1..total+1: the result is that value or TooManyEvents, it is TooManyEvents whenever Held > limit, and raising the limit never turns success into failure.",
            "Held <= limit but TooManyEvents would be reported as drift only (the property states the other direction).",
            "DESIGN.md section 6 C20"),
}

NOT_YET = "check under construction in this revision (planned: TLA+ spec + TLC + conformance replay, see DESIGN.md section 6)"

ALL = ["C%02d" % i for i in range(1, 21)]


def main():
    checks = []
    for pid in ALL:
        if pid not in CHECKS:
            continue
        tech, text, note, ref = CHECKS[pid]
        checks.append({
            "property_id": pid,
            "quick_cmd": f"./check {pid} quick",
            "thorough_cmd": f"./check {pid} thorough",
            "evidence_file": f"/verif/evidence/{pid}.json",
            "replay_cmd_template": f"./check {pid} --replay {{path}}",
            "engine": "tla-conformance",
            "level_claimed": {"category": "model_checking", "text": text, "design_ref": ref},
            "level_note": note,
            "technique": tech,
        })
    m = {
        "version": 1,
        "setup_cmd": "./check setup",
        "hooks": {
            "guard": "quick_xml_verif",
            "enable": "harness/.cargo/config.toml passes --cfg quick_xml_verif (rustflags) when building /repo as a path dependency of the harness",
            "baseline_off_cmd": "cd /repo && cargo test --workspace --no-fail-fast --offline",
            "source_commits": [],
            "add_only": True,
        },
        "engines": [{
            "name": "tla-conformance",
            "path": "/verif/check",
            "serves_properties": [c["property_id"] for c in checks],
            "kind_free_text": "explicit TLA+ specification (spec/*.tla) model-checked with TLC; TLC-generated behaviours replayed into the real code by the Rust harness (harness/); traces recorded from the real code validated against the specification by TLC",
        }],
        "checks": checks,
        "notes": "See DESIGN.md. known-findings.txt lists recorded genuine defects (as deviation actions of the spec) and repaired ones.",
        "not_applicable": [{"property_id": p, "reason": NOT_YET} for p in ALL if p not in CHECKS],
    }
    json.dump(m, open(os.path.join(ROOT, "MANIFEST.json"), "w"), indent=1)
    print("MANIFEST.json written:", len(checks), "checks,", len(m["not_applicable"]), "not applicable")


if __name__ == "__main__":
    main()
