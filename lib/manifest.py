#!/usr/bin/env python3
"""Generates /verif/MANIFEST.json from the table below (python3 lib/manifest.py)."""
import json, os, sys

ROOT = os.path.dirname(os.path.dirname(os.path.abspath(__file__)))

# property id -> (technique, level text, level note, design ref)
CHECKS = {
    "C01": ("TLA+ spec (XmlLex grammar vs XmlRead machine) model-checked with TLC; TLC-generated behaviours replayed on the real reader; recorded traces validated by TLC",
            "TLC checks exhaustively, for every byte string of <= K markup fragments (plus seeds) under a covering set / all 128 configurations, that the call-by-call reader machine returns exactly the events of the declarative lexical grammar; every such behaviour (input, config, expected event/position after each call) is then executed on the real Reader (from_reader and from_str, with and without the encoding feature) and compared field by field; traces recorded from the real reader on generated, mutated, random and corpus documents are validated against the same spec by TLC.",
            "Bounded scope for the exhaustive legs (K fragments); recorded traces are samples. The code is bound by observation at call returns, not by proof. TLC and the harness projection (harness/src/obs.rs) are trusted.",
            "DESIGN.md section 6 C01"),
}

NOT_YET = "check under construction in this revision (planned: TLA+ spec + TLC + conformance replay, see DESIGN.md section 6)"

ALL = ["C%02d" % i for i in range(1, 21)]


def main():
    checks = []
    for pid in ALL:
        if pid not in CHECKS:
            continue
        tech, text, note, ref = CHECKS[pid]
        checks.append({
            "property_id": pid,
            "quick_cmd": f"./check {pid} quick",
            "thorough_cmd": f"./check {pid} thorough",
            "evidence_file": f"/verif/evidence/{pid}.json",
            "replay_cmd_template": f"./check {pid} --replay {{path}}",
            "engine": "tla-conformance",
            "level_claimed": {"category": "model_checking", "text": text, "design_ref": ref},
            "level_note": note,
            "technique": tech,
        })
    m = {
        "version": 1,
        "setup_cmd": "./check setup",
        "hooks": {
            "guard": "quick_xml_verif",
            "enable": "harness/.cargo/config.toml passes --cfg quick_xml_verif (rustflags) when building /repo as a path dependency of the harness",
            "baseline_off_cmd": "cd /repo && cargo test --workspace --no-fail-fast --offline",
            "source_commits": [],
            "add_only": True,
        },
        "engines": [{
            "name": "tla-conformance",
            "path": "/verif/check",
            "serves_properties": [c["property_id"] for c in checks],
            "kind_free_text": "explicit TLA+ specification (spec/*.tla) model-checked with TLC; TLC-generated behaviours replayed into the real code by the Rust harness (harness/); traces recorded from the real code validated against the specification by TLC",
        }],
        "checks": checks,
        "notes": "See DESIGN.md. known-findings.txt lists recorded genuine defects (as deviation actions of the spec) and repaired ones.",
        "not_applicable": [{"property_id": p, "reason": NOT_YET} for p in ALL if p not in CHECKS],
    }
    json.dump(m, open(os.path.join(ROOT, "MANIFEST.json"), "w"), indent=1)
    print("MANIFEST.json written:", len(checks), "checks,", len(m["not_applicable"]), "not applicable")


if __name__ == "__main__":
    main()
