#!/usr/bin/env python3
"""Confirm a seeded change and run the checks against it.

  python3 lib/seedcheck.py confirm <seed-dir>          scratch worktree: baseline passes with the patch, demo fails with / passes without
  python3 lib/seedcheck.py detect  <seed-dir> [Cnn..]  apply to /repo, run ./check <Cnn> quick for the property (and extra ones), undo

<seed-dir> contains patch.diff, demo.rs, meta.json (property, features, ...). Results are written back into meta.json.
The scratch worktree and its build output are removed afterwards; nothing is ever committed to /repo.
"""
import json, os, subprocess, sys, shutil, time

REPO = os.environ.get("VP_RUN_REPO") or "/repo"     # (a background `vp run` works on its own copy of the repository)
ROOT = os.path.dirname(os.path.dirname(os.path.abspath(__file__)))
if ROOT != "/verif" and not os.environ.get("VP_RUN_REPO"):
    # a background snapshot of /verif must never patch the real /repo (start it with `vp run --with-repo`)
    print("refusing to patch /repo from a snapshot of /verif: VP_RUN_REPO is not set")
    sys.exit(2)
TARGET = "/var/tmp/seed-target"


def sh(cmd, cwd=None, timeout=3600, env=None):
    e = dict(os.environ, CARGO_NET_OFFLINE="true")
    if env:
        e.update(env)
    p = subprocess.run(cmd, cwd=cwd, shell=True, stdout=subprocess.PIPE, stderr=subprocess.STDOUT, text=True, timeout=timeout, env=e)
    return p.returncode, p.stdout


def confirm(d):
    meta = json.load(open(os.path.join(d, "meta.json")))
    feats = (meta.get("features") or "").strip()
    fflag = f"--features {feats}" if feats else ""
    wt = f"/tmp/confirm-{os.path.basename(d.rstrip('/'))}"
    sh(f"git -C {REPO} worktree remove --force {wt}")
    rc, out = sh(f"git -C {REPO} worktree add -q --detach {wt} HEAD")
    assert rc == 0, out
    env = {"CARGO_TARGET_DIR": TARGET}
    res = {}
    try:
        shutil.copy(os.path.join(d, "demo.rs"), os.path.join(wt, "tests", "seed_demo.rs"))
        rc, out = sh(f"cargo test --offline {fflag} --test seed_demo 2>&1 | tail -15", cwd=wt, env=env)
        res["demo_passes_without_change"] = "test result: ok" in out and "FAILED" not in out
        rc, out = sh(f"git apply {os.path.abspath(os.path.join(d, 'patch.diff'))}", cwd=wt)
        res["patch_applies"] = rc == 0
        if rc == 0:
            rc, out = sh(f"cargo test --offline {fflag} --test seed_demo 2>&1 | tail -15", cwd=wt, env=env)
            res["demo_fails_with_change"] = ("FAILED" in out or "panicked" in out or "error" in out.lower()) and "test result: ok" not in out.split("Running")[-1]
            os.remove(os.path.join(wt, "tests", "seed_demo.rs"))
            rc, out = sh("cargo test --workspace --no-fail-fast --offline 2>&1 | grep -E '^test result|FAILED|^error' ", cwd=wt, env=env, timeout=5400)
            lines = [l for l in out.splitlines() if l.startswith("test result")]
            res["baseline_tests_pass"] = bool(lines) and all("ok." in l for l in lines) and "error" not in out
            res["baseline_summary"] = f"{len(lines)} test binaries, all ok" if res["baseline_tests_pass"] else out[-600:]
    finally:
        sh(f"git -C {REPO} worktree remove --force {wt}")
    res["confirmed"] = all(res.get(k) for k in ("patch_applies", "demo_passes_without_change", "demo_fails_with_change", "baseline_tests_pass"))
    res["confirmed_at"] = time.strftime("%Y-%m-%d %H:%M")
    meta["confirmation"] = res
    json.dump(meta, open(os.path.join(d, "meta.json"), "w"), indent=1)
    print(json.dumps(res, indent=1))
    return 0 if res["confirmed"] else 1


def detect(d, props):
    meta = json.load(open(os.path.join(d, "meta.json")))
    props = props or [meta["property"]]
    rc, out = sh(f"git -C {REPO} status --porcelain")
    assert out.strip() == "", "/repo is not clean: " + out
    rc, out = sh(f"git -C {REPO} apply {os.path.abspath(os.path.join(d, 'patch.diff'))}")
    assert rc == 0, out
    det = meta.get("detection", {})
    try:
        for p in props:
            t0 = time.time()
            rc, out = sh(f"./check {p} quick", cwd=ROOT, timeout=5400)
            v = [l for l in out.splitlines() if l.startswith("VIOLATION")]
            det[p] = {"exit": rc, "violations": len(v), "first": v[:2], "wall_s": round(time.time() - t0),
                      "detected": rc == 1 and len(v) > 0, "tail": "" if rc in (0, 1) else out[-800:]}
            print(p, json.dumps(det[p])[:400], flush=True)
    finally:
        sh(f"git -C {REPO} checkout -- .")
    meta["detection"] = det
    json.dump(meta, open(os.path.join(d, "meta.json"), "w"), indent=1)
    return 0


if __name__ == "__main__":
    cmd, d = sys.argv[1], sys.argv[2]
    sys.exit(confirm(d) if cmd == "confirm" else detect(d, sys.argv[3:]))
