#!/usr/bin/env python3
"""Write the prompt for a seeding sub-agent (round N) of one property and create its scratch worktree.

  python3 lib/seedprompt.py <round> <Cnn>   ->  /tmp/seed<round>-<Cnn> (worktree), prints the prompt

The prompt contains ONLY the property text and the one-sentence summaries of the changes already
delivered for it (so the agent picks another site); nothing about /verif.
"""
import json, os, subprocess, sys

ROOT = os.path.dirname(os.path.dirname(os.path.abspath(__file__)))


def main():
    rnd, pid = sys.argv[1], sys.argv[2]
    prop = next(json.loads(l) for l in open(os.path.join(ROOT, "properties.jsonl")) if json.loads(l)["id"] == pid)
    wt = f"/tmp/seed{rnd}-{pid}"
    subprocess.run(f"git -C /repo worktree remove --force {wt}", shell=True, capture_output=True)
    subprocess.run(f"git -C /repo worktree add -q --detach {wt} HEAD", shell=True, check=True)
    prev = []
    for d in sorted(os.listdir(os.path.join(ROOT, "seeded"))):
        if d.startswith(pid + "-"):
            m = json.load(open(os.path.join(ROOT, "seeded", d, "meta.json")))
            prev.append(f'"{m["summary"]}" (files: {", ".join(m.get("files", []))})')
    files = prop.get("anchors", {}).get("files", [])
    text = f"""You are helping to evaluate a verification framework by writing a realistic BUG for the Rust crate quick-xml (tafia/quick-xml 0.37.4). You work ONLY inside your own scratch git worktree: {wt} (a checkout of the repository; never touch /repo, /verif or any other directory; do not commit).

The property that your change must break:
----
Property {pid}: {prop["title"]}

Statement: {prop["statement"]}

Quantified over: {prop["quantifier"]["text"]}

Relevant source files: {", ".join(files)}

----

Previous volunteers already delivered these bugs for the same property:
""" + "\n".join(f" - {p}" for p in prev) + f"""
Choose a DIFFERENT code site and a different mechanism from all of them; do not repeat or vary those ideas. Look for parts of the code relevant to the property that none of them touched (other entry points, other configuration switches, other input shapes, the async or buffered variants, helper functions, rarely used public methods).

Task: make ONE small, realistic source change in {wt}/src (the kind of mistake a maintainer could plausibly make in a refactoring or an "optimisation": an off-by-one, a dropped case, a wrong flag, a state not restored, a boundary condition) such that
 1. the crate still compiles, and the existing test suite still passes completely: run `cd {wt} && cargo test --offline 2>&1 | grep -E "^test result|FAILED|panicked"` (default features; this is the pinned baseline, all "test result" lines must be ok) and, if your change touches serde/async/encoding code, ALSO `cargo test --offline --features serialize,overlapped-lists,async-tokio,encoding` must stay green;
 2. the property above is violated by the changed code;
 3. the violation needs something SPECIFIC to manifest - a particular way the input is cut into pieces, a fault at a particular point, a multi-step sequence of calls, an unusual input shape, or two cooperating code sites that each look fine alone - NOT something ordinary use would expose immediately. Prefer subtle over blatant. If your first idea makes existing tests fail, choose another.

Deliver, inside {wt}/SEED/ (create the directory):
 - patch.diff : output of `git -C {wt} diff -- src` (the change only);
 - demo.rs : a self-contained Rust integration test file (it will be copied to tests/seed_demo.rs of a checkout; use only quick-xml's public API, std, and the dev-dependencies already in Cargo.toml such as tokio/serde_derive/pretty_assertions) that FAILS with your change and PASSES on the unchanged code. State at its top which cargo features it needs (e.g. `// features: serialize`). Verify both directions yourself: copy it to {wt}/tests/seed_demo.rs, run `cargo test --offline [--features ...] --test seed_demo` with the change (must fail), then revert ONLY your src change with `git -C {wt} apply -R SEED/patch.diff` (do NOT use `git stash`: the stash is shared between worktrees and other agents are working in parallel), run again (must pass), then re-apply it with `git -C {wt} apply SEED/patch.diff` and check that `git -C {wt} diff -- src` equals SEED/patch.diff.
 - meta.json : {{"property": "{pid}", "summary": "<one sentence: what was changed>", "needs": "<what specific input/sequence/chunking/fault is needed for it to manifest>", "files": ["src/..."], "features": "<cargo features the demo needs or empty>", "commands_run": ["..."], "baseline_tests_pass": true/false, "demo_fails_with_change": true/false, "demo_passes_without_change": true/false}}
Finally remove {wt}/tests/seed_demo.rs again and run `cd {wt} && cargo clean` to free disk space (leave the src change and SEED/ in place). Reply with the contents of meta.json and the patch.
The sandbox has no network; cargo works offline. Builds can take a few minutes; use at most ~40 minutes overall.
"""
    print(text)


if __name__ == "__main__":
    main()
