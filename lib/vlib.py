"""Shared plumbing for ./check: running TLC, the Rust harness, evidence files."""
import json, os, re, subprocess, sys, time, shutil

ROOT = os.path.dirname(os.path.dirname(os.path.abspath(__file__)))
SPEC = os.path.join(ROOT, "spec")
HARNESS = os.path.join(ROOT, "harness")
WORK = os.path.join(ROOT, "work")
EVID = os.path.join(ROOT, "evidence")
REPLAY_DIR = os.path.join(EVID, "replay")
SEED = int(os.environ.get("VERIF_SEED", "1") or "1")
TLA_CP = "/opt/veriftools/tla/tla2tools.jar:/opt/veriftools/tla/CommunityModules-deps.jar"
TLC_WORKERS = int(os.environ.get("VERIF_TLC_WORKERS", "12"))


class ToolError(Exception):
    pass


def log(*a):
    print(*a, flush=True)


def work_dir(name, clean=True):
    d = os.path.join(WORK, name)
    if clean and os.path.isdir(d):
        shutil.rmtree(d, ignore_errors=True)
    os.makedirs(d, exist_ok=True)
    return d


# ---------------------------------------------------------------- harness
_built = {}


def build_harness(enc=False):
    """Build the harness against /repo's current working tree (path dependency,
    incremental). Returns the binary path.  Flavours: False/"noenc" (serialize, async-tokio, overlapped-lists),
    True/"enc" (+ encoding), "nool" (without overlapped-lists: the deserializer's other build variant)."""
    key = "enc" if enc is True else ("noenc" if not enc else enc)
    if key in _built:
        return _built[key]
    tdir = {"enc": "target-enc", "noenc": "target", "nool": "target-nool"}[key]
    cmd = ["cargo", "build", "--release", "--offline", "--target-dir", tdir]
    if key == "enc":
        cmd += ["--features", "enc"]
    if key == "nool":
        cmd += ["--no-default-features"]
    env = dict(os.environ, CARGO_NET_OFFLINE="true")
    t0 = time.time()
    p = subprocess.run(cmd, cwd=HARNESS, env=env, stdout=subprocess.PIPE, stderr=subprocess.STDOUT, text=True)
    if p.returncode != 0:
        # a change to /repo that does not compile with the harness is a tool error, not a verdict
        raise ToolError("harness build failed:\n" + p.stdout[-4000:])
    b = os.path.join(HARNESS, tdir, "release", "qxv")
    _built[key] = b
    log(f"[build] harness ({key}) ready in {time.time()-t0:.1f}s")
    return b


CURRENT_PID = None       # set by Acc(): the property being checked


def harness(args, enc=False, timeout=3600, stdin=None):
    """Run the harness; returns (summary dict or None, VIOLATION lines, all stdout lines)."""
    b = build_harness(enc)
    try:
        p = subprocess.run([b] + [str(a) for a in args], cwd=ROOT, stdout=subprocess.PIPE, stderr=subprocess.PIPE,
                           text=True, timeout=timeout, input=stdin)
    except subprocess.TimeoutExpired:
        raise ToolError(f"harness {' '.join(map(str, args))} timed out after {timeout}s")
    lines = [l for l in p.stdout.splitlines()]
    summ = None
    viol = []
    for l in lines:
        if l.startswith("SUMMARY "):
            summ = json.loads(l[8:])
        elif l.startswith("VIOLATION "):
            viol.append(l)
    if summ is None and p.returncode in (101, -6, 134, -11, 139):
        # the harness process itself died of a panic / abort that escaped its catch_unwind nets (e.g. a panic while a
        # panic is being unwound, an abort in a destructor): a panic of the code under test is data, not a tool error
        pid = CURRENT_PID or "UNKNOWN"
        os.makedirs(REPLAY_DIR, exist_ok=True)
        path = os.path.join(REPLAY_DIR, f"{pid}-harness-died-{abs(hash(' '.join(map(str, args)))) % 100000}.json")
        json.dump({"kind": "harness-died", "args": [str(a) for a in args], "enc": enc, "returncode": p.returncode,
                   "stderr_tail": p.stderr[-3000:], "stdout_tail": p.stdout[-1000:]}, open(path, "w"), indent=1)
        viol.append(f"VIOLATION property={pid} replay={path}")
        return {"runs": 0, "comparisons": 0, "violations": 1, "died": True}, viol, lines
    if summ is None and p.returncode not in (0, 1):
        raise ToolError(f"harness {' '.join(map(str,args))} failed rc={p.returncode}:\n{p.stdout[-2000:]}\n{p.stderr[-2000:]}")
    return summ, viol, lines


# ---------------------------------------------------------------- TLC
class Tlc:
    def __init__(self):
        self.ok = False
        self.violated = None      # invariant / property name
        self.error = None         # tool-level error text
        self.generated = 0
        self.distinct = 0
        self.depth = 0
        self.init_states = 0
        self.tagged = {}          # tag -> list of decoded payloads
        self.out = ""
        self.wall = 0.0
        self.cmd = ""
        self.zero_cover = []
        self.post_failed = False


def tlc(module, cfg_text, name=None, workers=None, timeout=1800, env=None, coverage=False,
        simulate=None, depth=None, xmx="8g", xss=None, deque=False, tags=("REPLAY",), keep_out=False):
    """Run TLC on spec/<module>.tla with the given cfg text. Never raises on a
    property violation; raises ToolError on parse/semantic errors or timeout."""
    name = name or module
    wd = work_dir("tlc-" + name)
    cfgp = os.path.join(wd, module + ".cfg")
    with open(cfgp, "w") as f:
        f.write(cfg_text)
    workers = workers or TLC_WORKERS
    jopts = ["-XX:+UseParallelGC", "-Xmx" + xmx]
    if xss:
        jopts.append("-Xss" + xss)
    if deque:
        jopts.append("-Dtlc2.tool.queue.IStateQueue=StateDeque")
    cmd = ["java"] + jopts + ["-cp", TLA_CP, "tlc2.TLC", "-workers", str(workers), "-metadir", os.path.join(wd, "states"),
                              "-cleanup", "-noGenerateSpecTE", "-config", cfgp]
    if coverage:
        cmd += ["-coverage", "1"]
    if simulate:
        cmd += ["-simulate", simulate]
    if depth:
        cmd += ["-depth", str(depth)]
    cmd += [module + ".tla"]
    e = dict(os.environ)
    if env:
        e.update({k: str(v) for k, v in env.items()})
    r = Tlc()
    r.cmd = " ".join(cmd[cmd.index("tlc2.TLC"):])
    t0 = time.time()
    outp = os.path.join(wd, "out.txt")
    with open(outp, "w") as fo:
        try:
            p = subprocess.run(cmd, cwd=SPEC, env=e, stdout=fo, stderr=subprocess.STDOUT, timeout=timeout)
        except subprocess.TimeoutExpired:
            raise ToolError(f"TLC timed out after {timeout}s on {module}")
    r.wall = time.time() - t0
    tagre = re.compile(r'^<<"([A-Z_]+)", (".*")>>$')
    tail = []
    with open(outp, errors="replace") as fi:
        for line in fi:
            line = line.rstrip("\n")
            m = tagre.match(line)
            if m and m.group(1) in tags:
                r.tagged.setdefault(m.group(1), []).append(json.loads(m.group(2)))
                continue
            tail.append(line)
            if len(tail) > 4000:
                del tail[:2000]
            m = re.match(r"^(\d+) states generated, (\d+) distinct states found", line)
            if m:
                r.generated, r.distinct = int(m.group(1)), int(m.group(2))
            m = re.match(r"^The depth of the complete state graph search is (\d+)", line)
            if m:
                r.depth = int(m.group(1))
            m = re.match(r"^Finished computing initial states: (\d+) distinct state", line)
            if m:
                r.init_states = int(m.group(1))
            m = re.match(r"^Error: Invariant (\S+) is violated", line)
            if m:
                r.violated = m.group(1)
            m = re.match(r"^Error: Action property (\S+) is violated", line)
            if m:
                r.violated = m.group(1)
            if "Temporal properties were violated" in line:
                r.violated = r.violated or "temporal"
            if line.startswith("Error: Postcondition"):
                r.post_failed = True
                continue
            if line.startswith("Error: ") and r.violated is None and r.error is None and "Invariant" not in line \
                    and "The behavior up to this point" not in line:
                r.error = line
            m = re.match(r"^<(\w+) line \d+, col \d+ to line \d+, col \d+ of module (\w+)>: (\d+):(\d+)", line)
            if m and coverage and int(m.group(4)) == 0 and m.group(1) not in ("Init",):
                r.zero_cover.append(m.group(1))
    r.out = "\n".join(tail[-400:])
    if p.returncode == 0 and r.violated is None and r.error is None:
        r.ok = True
    elif r.violated is not None or r.post_failed:
        r.ok = False
    else:
        raise ToolError(f"TLC failed on {module} (rc={p.returncode}): {r.error}\n" + "\n".join(tail[-60:]))
    if not keep_out:
        pass
    return r


def tlc_counterexample_file(pid, r, what):
    """Write the TLC counterexample (design-level violation) as a replay file."""
    os.makedirs(REPLAY_DIR, exist_ok=True)
    path = os.path.join(REPLAY_DIR, f"{pid}-tlc-{what}.json")
    with open(path, "w") as f:
        json.dump({"property": pid, "kind": "tlc-counterexample", "violated": r.violated, "cmd": r.cmd,
                   "output_tail": r.out[-20000:]}, f, indent=1)
    return path


def write_ndjson(path, rows):
    with open(path, "w") as f:
        for r in rows:
            f.write(r if isinstance(r, str) else json.dumps(r, separators=(",", ":")))
            f.write("\n")


# ---------------------------------------------------------------- known findings
def known_findings():
    """known-findings.txt: lines
         open: property=<id> id=<finding id> deviation=<dev id> <what fails>
         fixed: property=<id> <commit> <what failed>
    Only `open` lines enable a deviation."""
    out = []
    p = os.path.join(ROOT, "known-findings.txt")
    if not os.path.exists(p):
        return out
    for line in open(p):
        line = line.strip()
        if not line or line.startswith("#"):
            continue
        m = re.match(r"^open: property=(\S+) id=(\S+) deviation=(\S+) (.*)$", line)
        if m:
            out.append({"status": "open", "property": m.group(1), "id": m.group(2), "deviation": m.group(3), "what": m.group(4)})
            continue
        m = re.match(r"^fixed: property=(\S+) (\S+) (.*)$", line)
        if m:
            out.append({"status": "fixed", "property": m.group(1), "commit": m.group(2), "what": m.group(3)})
    return out


def open_deviations(prop=None):
    return [k for k in known_findings() if k["status"] == "open" and (prop is None or k["property"] == prop)]


# ---------------------------------------------------------------- result accumulation / evidence
class Acc:
    def __init__(self, pid, tier):
        global CURRENT_PID
        CURRENT_PID = pid
        self.pid, self.tier = pid, tier
        self.t0 = time.time()
        self.states = 0
        self.transitions = 0
        self.traces = 0
        self.evaluations = 0
        self.nontrivial = 0
        self.samples = []
        self.violations = []      # VIOLATION lines already printed or to print
        self.known_used = {}      # deviation id -> count
        self.drift = {}
        self.legs = []
        self.cmds = []
        self.exhaustive = True
        self.assumptions = []
        self.trusted = []
        self.rule = ""

    def add_tlc(self, r, leg):
        self.states += r.distinct
        self.transitions += max(r.generated - r.init_states, 0) if r.init_states else r.generated
        self.cmds.append(r.cmd)
        self.legs.append({"leg": leg, "tool": "TLC", "states_generated": r.generated, "distinct": r.distinct,
                          "depth": r.depth, "wall_s": round(r.wall, 1), "ok": r.ok})
        log(f"[{self.pid}] {leg}: TLC {r.generated} generated / {r.distinct} distinct states, depth {r.depth}, {r.wall:.1f}s, ok={r.ok}")
        if not r.ok:
            path = tlc_counterexample_file(self.pid, r, re.sub(r"\W+", "_", leg))
            line = f"VIOLATION property={self.pid} replay={path}"
            log(f"[{self.pid}] {leg}: TLC reports {r.violated} violated")
            log(line)
            self.violations.append(line)

    def add_harness(self, summ, viol, leg, traces_key="runs", count_nontrivial=True):
        for v in viol:
            log(v)              # the harness already wrote the replay file; the line must reach stdout
        self.violations += viol
        if summ:
            self.traces += summ.get(traces_key, 0)
            self.evaluations += summ.get("comparisons", 0)
            if count_nontrivial:
                self.nontrivial += summ.get("nontrivial", 0)
            for k, v in summ.get("devs_used", {}).items():
                self.known_used[k] = self.known_used.get(k, 0) + v
            for k, v in summ.get("drift", {}).items():
                self.drift[k] = self.drift.get(k, 0) + v
            for s in summ.get("samples", [])[:3]:
                if len(self.samples) < 8:
                    self.samples.append(s)
            self.legs.append({"leg": leg, "tool": "qxv", **{k: summ[k] for k in summ if k in
                             ("behaviours", "runs", "comparisons", "nontrivial", "violations", "traces", "events")}})
            log(f"[{self.pid}] {leg}: harness {json.dumps({k: summ[k] for k in summ if k in ('behaviours','runs','comparisons','violations','traces','events')})}")

    def finish(self, level="model_checking", extra=None):
        for l in self.drift.items():
            log(f"SPEC-DRIFT field={l[0]} count={l[1]}")
        for dev, cnt in sorted(self.known_used.items()):
            k = [x for x in known_findings() if x["status"] == "open" and x["deviation"] == dev]
            if k:
                log(f"KNOWN-FINDING: property={k[0]['property']} id={k[0]['id']} {k[0]['what']} (observed {cnt} times)")
            else:
                # a deviation was used that is not (or no longer) listed: this is a violation
                line = f"VIOLATION property={self.pid} replay={os.path.join(REPLAY_DIR, self.pid + '-unlisted-deviation.json')}"
                os.makedirs(REPLAY_DIR, exist_ok=True)
                json.dump({"property": self.pid, "kind": "unlisted-deviation", "deviation": dev, "count": cnt},
                          open(os.path.join(REPLAY_DIR, self.pid + "-unlisted-deviation.json"), "w"))
                log(line)
                self.violations.append(line)
        cov = {
            "states": max(self.states, 0),
            "transitions": max(self.transitions, 0),
            "traces_validated_against_impl": self.traces,
            "samples": self.samples or [{"note": "no sample recorded"}],
            "evaluations": max(self.evaluations, 1),
            "distinct_nontrivial": self.nontrivial,
            "rule": self.rule,
            "exhaustive": self.exhaustive,
            "checker_cmd": " ; ".join(self.cmds)[:4000],
            "trusted_base": self.trusted,
            "legs": self.legs,
            "spec_drift": self.drift,
            "known_findings_observed": self.known_used,
        }
        if extra:
            cov.update(extra)
        ev = {
            "property_id": self.pid, "tier": self.tier, "seed": SEED, "level": level, "coverage": cov,
            "assumptions": self.assumptions, "wall_s": round(time.time() - self.t0, 1),
            "violations": len(self.violations),
        }
        os.makedirs(EVID, exist_ok=True)
        with open(os.path.join(EVID, self.pid + ".json"), "w") as f:
            json.dump(ev, f, indent=1)
        log(f"[{self.pid}] {self.tier}: {'VIOLATIONS: %d' % len(self.violations) if self.violations else 'held on everything explored'}"
            f" ({ev['wall_s']}s; states={cov['states']} traces={cov['traces_validated_against_impl']})")
        return 1 if self.violations else 0
