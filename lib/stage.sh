#!/bin/bash
# stage.sh <round> <Cnn> <suffix> : copy a delivered seed into seeded/<Cnn>-<suffix>, run detect, remove the worktree
set -u
cd "$(dirname "$0")/.."
r=$1; p=$2; s=$3
src=/tmp/seed$r-$p/SEED
test -f $src/patch.diff || { echo "no seed at $src"; exit 2; }
rm -rf seeded/$p-$s; cp -r $src seeded/$p-$s
python3 lib/seedcheck.py detect seeded/$p-$s 2>&1 | grep -v conda | cut -c1-220
git -C /repo status --short | head -3
