#!/bin/bash
# Run every registered check of a tier on the current tree; summary on stdout, full logs under work/runall/.
tier=${1:-quick}
cd "$(dirname "$0")/.."
mkdir -p work/runall
fail=0
# (RUNALL_ORDER="10 11 03 ..." runs the given checks, in that order)
for i in ${RUNALL_ORDER:-01 02 03 04 05 06 07 08 09 10 11 12 13 14 15 16 17 18 19 20}; do
  s=$(date +%s)
  ./check C$i $tier > work/runall/C$i-$tier.log 2>&1
  rc=$?
  e=$(( $(date +%s) - s ))
  echo "C$i $tier exit=$rc ${e}s $(grep -c '^VIOLATION' work/runall/C$i-$tier.log) violations, $(grep -c '^KNOWN-FINDING' work/runall/C$i-$tier.log) known, $(grep -c '^SPEC-DRIFT' work/runall/C$i-$tier.log) drift"
  [ $rc -ne 0 ] && fail=1
done
exit $fail
