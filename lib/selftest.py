"""./check selftest [Cnn ...] - demonstrate that the specification is bound to the code.

(i) trace corruption: one logged field of a recorded reader trace is changed / one record dropped => TLC must reject;
(ii) source mutants (textual edits of /repo, undone immediately; binding demonstration only - they are not
     claimed to pass the repository's own tests) and the confirmed seeded changes under seeded/ : the quick check of
     the named property must exit 1 with a VIOLATION line.
Never commits anything to /repo."""
import json, os, subprocess, sys, time

REPO = os.environ.get("VP_RUN_REPO") or "/repo"     # (a background `vp run` works on its own copy of the repository)
ROOT = os.path.dirname(os.path.dirname(os.path.abspath(__file__)))
if ROOT != "/verif" and not os.environ.get("VP_RUN_REPO"):
    # a background snapshot of /verif must never patch the real /repo (start it with `vp run --with-repo`)
    print("refusing to patch /repo from a snapshot of /verif: VP_RUN_REPO is not set")
    sys.exit(2)

# (property, file, old, new, description)
MUTANTS = [
    ("C01", "src/reader/mod.rs", "if buf.len() + i > 4 {", "if buf.len() + i >= 4 {", "comment terminator accepted one byte early (<!--->)"),
    ("C02", "src/reader/mod.rs", "if i == 1 && buf.ends_with(b\"-\") && chunk[0] == b'-' {", "if false && i == 1 && buf.ends_with(b\"-\") && chunk[0] == b'-' {", "comment terminator split as -|-> between two refills not recognised"),
    ("C02", "src/parser/pi.rs", "self.0 = bytes.last().copied() == Some(b'?');", "self.0 = false;", "PI '?' carry lost across refills"),
    ("C03", "src/reader/state.rs", "if len > 1 && buf[len - 1] == b'?' {", "if len > 0 && buf[len - 1] == b'?' {", "<?> slices out of range"),
    ("C04", "src/reader/state.rs", "            // #514: Always store names event when .check_end_names == false,", "            if !self.config.check_end_names { return Event::Start(event); }\n            // #514: Always store names event when .check_end_names == false,", "open-element stack not maintained while checking is off"),
    ("C05", "src/name.rs", "match self.bindings.iter().rposition(|n| n.level <= current_level) {", "match self.bindings.iter().rposition(|n| n.level < current_level) {", "namespace pop drops one level too many"),
    ("C08", "src/reader/state.rs", "&buf[8 + start..],", "&buf[8 + start + 1..],", "DOCTYPE content loses its first byte"),
    ("C10", "src/escape.rs", "        from_str_radix(hex, 16)?\n", "        from_str_radix(hex, 16)? & 0x1F_FFFF\n", "hex character references above 0x1FFFFF wrap around"),
    ("C11", "src/events/attributes.rs", "        self.state = State::Next(value.end + 1); // +1 for `'`", "        self.state = State::Next(value.end); // +1 for `'`", "iteration resumes ON the closing apostrophe of a single-quoted value"),
    ("C12", "src/reader/mod.rs", "                Err(e) => {\n                    $self.config_mut().trim_text_start = trim;\n                    return Err(e);", "                Err(e) => {\n                    return Err(e);", "trim_text_start not restored when read_to_end fails"),
    ("C16", "src/reader/state.rs", "if let Some(pos_end_name) = content.iter().rposition(|&b| !is_whitespace(b)) {\n                &content[..pos_end_name + 1]", "if let Some(pos_end_name) = content.iter().rposition(|&b| !is_whitespace(b)) {\n                &content[..pos_end_name]", "end-name trimming removes one byte too many"),
    ("C17", "src/reader/mod.rs", "            Self::Explicit(_) | Self::XmlDetected(_) => false,", "            Self::XmlDetected(_) => false,\n            Self::Explicit(_) => true,", "a declaration overrides an explicitly fixed encoding"),
    ("C18", "src/reader/buffered_reader.rs", "                    Err(ref e) if e.kind() == io::ErrorKind::Interrupted => continue,\n                    Err(e) => {\n                        *position += read;\n                        return Err(Error::Io(e.into()));\n                    }\n                };\n\n                if let Some(i) = parser.feed(available) {", "                    Err(e) => {\n                        *position += read;\n                        return Err(Error::Io(e.into()));\n                    }\n                };\n\n                if let Some(i) = parser.feed(available) {", "read_with does not retry on Interrupted"),
    ("C19", "src/writer.rs", "            Event::CData(e) => {\n                next_should_line_break = false;", "            Event::CData(e) => {", "indentation inserted after CDATA"),
    ("C09", "src/events/mod.rs", "        bytes.splice(..self.name_len, name.iter().cloned());\n        self.name_len = name.len();", "        bytes.splice(..self.name_len, name.iter().cloned());", "set_name leaves name_len stale"),
    ("C15", "src/de/mod.rs", "            _ => return None,\n        };\n        self.trim_start = trim_next_event;", "            _ => {\n                self.trim_start = true;\n                return None;\n            }\n        };\n        self.trim_start = trim_next_event;", "text after a comment / PI inside a text run loses its leading whitespace"),
    ("C20", "src/de/mod.rs", "            if self.write.len() >= max.get() {", "            if self.write.len() > max.get() {", "event buffer limit off by one"),
    ("C13", "src/se/mod.rs", "            None => Err(SeError::Unsupported(\n                \"an XML name cannot be empty\".into(),\n            )),", "            None => Ok(XmlName(name)),", "empty XML names accepted again"),
    ("C06", "src/se/content.rs", "new_seq_element_serializer(!self.last.is_text())", "new_seq_element_serializer(self.last.is_text())", "allow_primitive inverted again"),
    ("C07", "src/de/mod.rs", "                PayloadEvent::Text(mut e) => {\n                    self.skip_doctypes()?;\n                    if self.current_event_is_last_text() && e.inplace_trim_end() {", "                PayloadEvent::Text(mut e) => {\n                    if self.current_event_is_last_text() && e.inplace_trim_end() {", "DOCTYPE splits a text run again"),
]


def sh(cmd, cwd=None, timeout=5400):
    p = subprocess.run(cmd, cwd=cwd, shell=True, stdout=subprocess.PIPE, stderr=subprocess.STDOUT, text=True, timeout=timeout)
    return p.returncode, p.stdout


def main(args):
    only = set(args)
    rc, out = sh(f"git -C {REPO} status --porcelain")
    if out.strip():
        print("/repo has uncommitted changes; refusing to run selftest")
        return 2
    results = []
    failed = 0
    try:
        for prop, f, old, new, what in MUTANTS:
            if only and prop not in only:
                continue
            if old == new:
                continue
            path = os.path.join(REPO, f)
            src = open(path).read()
            if src.count(old) < 1:
                print(f"[selftest] {prop} mutant does not apply any more ({what}) - skipped")
                results.append({"property": prop, "what": what, "applied": False})
                continue
            open(path, "w").write(src.replace(old, new, 1))
            t0 = time.time()
            rc, out = sh(f"./check {prop} quick", cwd=ROOT)
            sh(f"git -C {REPO} checkout -- .")
            viol = [l for l in out.splitlines() if l.startswith("VIOLATION")]
            ok = rc == 1 and viol
            failed += 0 if ok else 1
            print(f"[selftest] {prop} {'CAUGHT' if ok else 'MISSED (exit %d)' % rc}: {what} ({time.time()-t0:.0f}s) {viol[0] if viol else ''}", flush=True)
            results.append({"property": prop, "what": what, "applied": True, "caught": bool(ok), "exit": rc})
        # seeded changes
        sd = os.path.join(ROOT, "seeded")
        for d in sorted(os.listdir(sd)) if os.path.isdir(sd) else []:
            mp = os.path.join(sd, d, "meta.json")
            if not os.path.exists(mp):
                continue
            meta = json.load(open(mp))
            prop = meta["property"]
            if only and prop not in only:
                continue
            rc, out = sh(f"git -C {REPO} apply {os.path.join(sd, d, 'patch.diff')}")
            if rc != 0:
                print(f"[selftest] seeded/{d} does not apply: {out[:200]}")
                continue
            rc, out = sh(f"./check {prop} quick", cwd=ROOT)
            sh(f"git -C {REPO} checkout -- .")
            viol = [l for l in out.splitlines() if l.startswith("VIOLATION")]
            ok = rc == 1 and viol
            failed += 0 if ok else 1
            print(f"[selftest] seeded/{d} ({prop}) {'CAUGHT' if ok else 'MISSED (exit %d)' % rc}: {meta.get('summary','')[:100]}", flush=True)
            results.append({"seeded": d, "property": prop, "caught": bool(ok), "exit": rc})
    finally:
        sh(f"git -C {REPO} checkout -- .")
    os.makedirs(os.path.join(ROOT, "work"), exist_ok=True)
    json.dump(results, open(os.path.join(ROOT, "work", "selftest.json"), "w"), indent=1)
    print(f"[selftest] {len(results)} cases, {failed} missed")
    return 1 if failed else 0
