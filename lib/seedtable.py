#!/usr/bin/env python3
"""Regenerates the table of DESIGN.md section 11 from seeded/*/meta.json (between the SEEDED-TABLE markers)."""
import json, os, re, glob
ROOT = os.path.dirname(os.path.dirname(os.path.abspath(__file__)))
rows = []
for d in sorted(glob.glob(os.path.join(ROOT, "seeded", "*"))):
    mp = os.path.join(d, "meta.json")
    if not os.path.exists(mp):
        continue
    m = json.load(open(mp))
    conf = m.get("confirmation", {})
    det = m.get("detection", {})
    pid = m["property"]
    dd = det.get(pid, {})
    legs = sorted({re.sub(r".*/(C\d+)-(trace|tlc|mut)?.*", lambda x: "C (trace validation)" if x.group(2) == "trace" else ("A (TLC)" if x.group(2) == "tlc" else "B (replay)"), v) for v in dd.get("first", [])})
    summ = re.sub(r"\s+", " ", m.get("summary", "")).replace("|", "/")
    needs = re.sub(r"\s+", " ", m.get("needs", "")).replace("|", "/")
    rows.append(f"| `{os.path.basename(d)}` | {pid} | {summ[:230]} | {needs[:200]} | {'yes' if conf.get('confirmed') else 'NO' if conf else 'pending'} | "
                f"{'caught' if dd.get('detected') else 'MISSED' if dd else 'not run'} ({', '.join(legs) if legs else '-'}; {dd.get('violations', 0)} violations, {dd.get('wall_s', '?')} s) |")
table = ("| id | property | change | needs, to manifest | confirmed (baseline green, demo fails with / passes without) | `./check <property> quick` on /repo + patch |\n|---|---|---|---|---|---|\n" + "\n".join(rows))
p = os.path.join(ROOT, "DESIGN.md")
t = open(p).read()
if "<!-- SEEDED-TABLE-BEGIN -->" in t:
    t = re.sub(r"<!-- SEEDED-TABLE-BEGIN -->.*<!-- SEEDED-TABLE-END -->", lambda m: "<!-- SEEDED-TABLE-BEGIN -->\n" + table + "\n<!-- SEEDED-TABLE-END -->", t, flags=re.S)
else:
    t = t.replace("SEEDED_TABLE_PLACEHOLDER", "<!-- SEEDED-TABLE-BEGIN -->\n" + table + "\n<!-- SEEDED-TABLE-END -->")
open(p, "w").write(t)
print(len(rows), "seeded changes in the table")
