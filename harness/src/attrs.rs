//! C11: attribute iteration. Leg (B): TLC-generated tag contents with the
//! expected item list; leg (C): generated attribute lists recorded for
//! spec/TraceAttrs.tla.

use std::io::{BufRead, Write};
use std::panic::{catch_unwind, AssertUnwindSafe};

use quick_xml::events::attributes::{AttrError, Attributes};
use rand::rngs::StdRng;
use rand::{Rng, SeedableRng};
use serde::{Deserialize, Serialize};
use serde_json::{json, Value};

/// One yielded item in the spec's vocabulary.
#[derive(Clone, Debug, PartialEq, Serialize, Deserialize)]
pub struct Item {
    /// "Attr" | "Err" | "Panic"
    pub k: String,
    pub key: Vec<u8>,
    pub val: Vec<u8>,
    pub e: String,
    pub p1: usize,
    pub p2: usize,
}

pub fn iterate(s: &str, pos: usize, html: bool, chk: bool) -> (Vec<Item>, bool) {
    iterate_pat(s, pos, html, &[chk])
}

/// `pat`: the setting of the duplicate check before the 1st, 2nd, ... call (cyclic)
pub fn iterate_pat(s: &str, pos: usize, html: bool, pat: &[bool]) -> (Vec<Item>, bool) {
    let r = catch_unwind(AssertUnwindSafe(|| {
        let mut it = if html { Attributes::html(s, pos) } else { Attributes::new(s, pos) };
        it.with_checks(pat[0]);
        let mut out = Vec::new();
        let mut guard = 0;
        while let Some(r) = {
            it.with_checks(pat[guard % pat.len()]);
            it.next()
        } {
            out.push(match r {
                Ok(a) => Item { k: "Attr".into(), key: a.key.as_ref().to_vec(), val: a.value.to_vec(), e: String::new(), p1: 0, p2: 0 },
                Err(e) => {
                    let (n, p1, p2) = match e {
                        AttrError::ExpectedEq(p) => ("ExpectedEq", p, 0),
                        AttrError::ExpectedValue(p) => ("ExpectedValue", p, 0),
                        AttrError::UnquotedValue(p) => ("UnquotedValue", p, 0),
                        AttrError::ExpectedQuote(p, q) => ("ExpectedQuote", p, q as usize),
                        AttrError::Duplicated(p, q) => ("Duplicated", p, q),
                    };
                    Item { k: "Err".into(), key: vec![], val: vec![], e: n.into(), p1, p2 }
                }
            });
            guard += 1;
            if guard > s.len() + 5 {
                break;
            }
        }
        // "iteration always ends and stays ended"
        let fused = guard <= s.len() + 5 && it.next().is_none() && it.next().is_none() && it.next().is_none();
        (out, fused)
    }));
    r.unwrap_or_else(|_| (vec![Item { k: "Panic".into(), key: vec![], val: vec![], e: String::new(), p1: 0, p2: 0 }], false))
}

#[derive(Deserialize)]
struct Beh {
    s: Vec<u8>,
    pos: usize,
    html: u8,
    chk: u8,
    /// rows [k, form, klo, khi, vlo, vhi, e, p1, p2]
    items: Vec<Value>,
    /// Attributes::has_nil with `p` bound to the XMLSchema-instance namespace
    #[serde(default)]
    nil: Option<u8>,
    /// BytesStart::try_get_attribute for the names a, ab, p:nil, bb: rows [kind, vlo|p1, vhi|p2, e]
    #[serde(default)]
    tga: Option<Vec<Value>>,
    /// the items when the duplicate check is switched on / off / on / on / off ... between the calls (with_checks in the middle)
    #[serde(default)]
    tog: Option<Vec<Value>>,
}

const GET_NAMES: [&str; 4] = ["a", "ab", "p:nil", "bb"];

/// the two consumers of the iteration in the public API, in the spec's vocabulary
fn consumers(s: &str, pos: usize, html: bool, chk: bool) -> (String, Vec<Value>) {
    let nil = catch_unwind(AssertUnwindSafe(|| {
        let mut r = quick_xml::NsReader::from_str("<r xmlns:p='http://www.w3.org/2001/XMLSchema-instance'>");
        r.read_event().unwrap();
        let mut it = if html { Attributes::html(s, pos) } else { Attributes::new(s, pos) };
        it.with_checks(chk);
        it.has_nil(&r)
    }));
    let nil = match nil {
        Ok(true) => "1",
        Ok(false) => "0",
        Err(_) => "panic",
    };
    let tga = GET_NAMES
        .iter()
        .map(|name| {
            let r = catch_unwind(AssertUnwindSafe(|| {
                let e = quick_xml::events::BytesStart::from_content(s, pos);
                match e.try_get_attribute(*name) {
                    Ok(None) => json!(["None", 0, 0, ""]),
                    Ok(Some(a)) => {
                        // the value is a sub-slice of the tag content: report its offsets
                        let lo = a.value.as_ptr() as usize - s.as_ptr() as usize;
                        json!(["Some", lo, lo + a.value.len(), ""])
                    }
                    Err(err) => {
                        let (n, p1, p2) = match err {
                            AttrError::ExpectedEq(p) => ("ExpectedEq", p, 0),
                            AttrError::ExpectedValue(p) => ("ExpectedValue", p, 0),
                            AttrError::UnquotedValue(p) => ("UnquotedValue", p, 0),
                            AttrError::ExpectedQuote(p, q) => ("ExpectedQuote", p, q as usize),
                            AttrError::Duplicated(p, q) => ("Duplicated", p, q),
                        };
                        json!(["Err", p1, p2, n])
                    }
                }
            }));
            r.unwrap_or_else(|_| json!(["Panic", 0, 0, ""]))
        })
        .collect();
    (nil.to_string(), tga)
}

pub fn replay(file: &str, prop: &str, out_dir: &str) -> Value {
    let f = std::io::BufReader::new(std::fs::File::open(file).expect("behaviour file"));
    let (mut n, mut cmp, mut viol, mut nontriv) = (0u64, 0u64, 0u64, 0u64);
    let mut files: Vec<String> = Vec::new();
    let mut samples = Vec::new();
    for line in f.lines() {
        let line = line.unwrap();
        if line.trim().is_empty() {
            continue;
        }
        let b: Beh = serde_json::from_str(&line).expect("json");
        n += 1;
        let s = String::from_utf8(b.s.clone()).expect("ascii tag content");
        let exp: Vec<Item> = b
            .items
            .iter()
            .map(|r| {
                let a = r.as_array().unwrap();
                let g = |i: usize| a[i].as_u64().unwrap() as usize;
                let k = a[0].as_str().unwrap().to_string();
                if k == "Attr" {
                    Item { k, key: b.s[g(2)..g(3)].to_vec(), val: b.s[g(4)..g(5)].to_vec(), e: String::new(), p1: 0, p2: 0 }
                } else {
                    Item { k, key: vec![], val: vec![], e: a[6].as_str().unwrap().to_string(), p1: g(7), p2: g(8) }
                }
            })
            .collect();
        let row_to_item = |r: &Value| -> Item {
            let a = r.as_array().unwrap();
            let g = |i: usize| a[i].as_u64().unwrap() as usize;
            let k = a[0].as_str().unwrap().to_string();
            if k == "Attr" {
                Item { k, key: b.s[g(2)..g(3)].to_vec(), val: b.s[g(4)..g(5)].to_vec(), e: String::new(), p1: 0, p2: 0 }
            } else {
                Item { k, key: vec![], val: vec![], e: a[6].as_str().unwrap().to_string(), p1: g(7), p2: g(8) }
            }
        };
        let (act, fused) = iterate(&s, b.pos, b.html != 0, b.chk != 0);
        cmp += exp.len() as u64 + 1;
        if exp.len() >= 2 {
            nontriv += 1;
        }
        if samples.len() < 3 && exp.len() >= 2 && n % 53 == 0 {
            samples.push(json!({"tag": s, "html": b.html, "checks": b.chk, "expected": exp}));
        }
        let mut cons_bad: Option<Value> = None;
        if let (Some(nil), Some(tga)) = (b.nil, b.tga.as_ref()) {
            let (anil, atga) = consumers(&s, b.pos, b.html != 0, b.chk != 0);
            cmp += 1 + tga.len() as u64;
            // try_get_attribute is a method of a start tag: XML mode, name length = pos
            let tga_ok = b.html != 0 || &atga == tga;
            if anil != nil.to_string() || !tga_ok {
                cons_bad = Some(json!({"has_nil": {"expected": nil, "actual": anil}, "try_get_attribute": {"names": GET_NAMES, "expected": tga, "actual": atga}}));
            }
        }
        if let Some(tog) = b.tog.as_ref() {
            let texp: Vec<Item> = tog.iter().map(row_to_item).collect();
            let (tact, tfused) = iterate_pat(&s, b.pos, b.html != 0, &[true, false, true]);
            cmp += texp.len() as u64 + 1;
            if (texp != tact || !tfused) && cons_bad.is_none() {
                cons_bad = Some(json!({"with_checks toggled on/off/on between the calls": {"expected": texp, "actual": tact, "fused": tfused}}));
            }
        }
        if exp != act || !fused || cons_bad.is_some() {
            viol += 1;
            if files.len() < 5 {
                let path = format!("{}/{}-{}.json", out_dir, prop, files.len());
                std::fs::create_dir_all(out_dir).ok();
                std::fs::write(&path, serde_json::to_string_pretty(&json!({"property": prop, "kind": "attrs-replay",
                    "s": b.s, "tag": s, "pos": b.pos, "html": b.html, "chk": b.chk, "expected": exp, "actual": act, "fused": fused, "consumers": cons_bad})).unwrap()).ok();
                println!("VIOLATION property={} replay={}", prop, path);
                files.push(path);
            }
        }
    }
    json!({"behaviours": n, "runs": n, "comparisons": cmp, "nontrivial": nontriv, "violations": viol, "samples": samples, "replay_files": files})
}

pub fn rerun(path: &str) -> bool {
    let v: Value = serde_json::from_str(&std::fs::read_to_string(path).unwrap()).unwrap();
    let s = v["tag"].as_str().unwrap();
    let exp: Vec<Item> = serde_json::from_value(v["expected"].clone()).unwrap();
    let (act, fused) = iterate(s, v["pos"].as_u64().unwrap() as usize, v["html"] == 1, v["chk"] == 1);
    println!("tag: {:?}\nexpected: {}\nactual:   {}\nfused: {}", s, serde_json::to_string(&exp).unwrap(), serde_json::to_string(&act).unwrap(), fused);
    exp != act || !fused
}

/// Leg (C): generated attribute lists (3-8 attributes, either quote kind, any
/// spacing, values with blanks and the other quote) with injected faults.
pub fn record(out: &str, seed: u64, n: usize) -> Value {
    let mut rng = StdRng::seed_from_u64(seed);
    let mut f = std::io::BufWriter::new(std::fs::File::create(out).expect("trace file"));
    let keys = ["a", "b", "ab", "k", "xmlns", "p:q", "é", "a-b.c", "_x", "k2"];
    let vals = ["", "v", "a b", " ", "x=y", "/>", ">", "&amp;", "é", "don't", "say \"hi\"", "\t\n", "=", "a'b", "''"];
    let sps = ["", " ", "  ", "\t", "\n ", "\r\n"];
    let mut events = 0u64;
    let mut nontriv = 0u64;
    let mut samples = Vec::new();
    for i in 0..n {
        let mut s = String::from(["t", "tag", "a:b", ""][rng.gen_range(0..4)]);
        let pos = s.len();
        let cnt = rng.gen_range(0..9);
        let mut had_fault = false;
        for _ in 0..cnt {
            s.push_str([" ", "  ", "\t", "\n"][rng.gen_range(0..4)]);
            let key = keys[rng.gen_range(0..keys.len())];
            let val = vals[rng.gen_range(0..vals.len())];
            let fault = if rng.gen_bool(0.25) { rng.gen_range(1..7) } else { 0 };
            had_fault |= fault != 0;
            match fault {
                1 => s.push_str(key),                                  // no '='
                2 => { s.push_str(key); s.push_str(sps[rng.gen_range(0..sps.len())]); s.push('='); }  // no value (or swallows next)
                3 => { s.push_str(key); s.push('='); s.push_str(val.split_whitespace().next().unwrap_or("v")); } // unquoted
                4 => { s.push_str(key); s.push_str("=\""); s.push_str(&val.replace('"', "")); }        // unterminated
                5 => { s.push('='); s.push_str(key); }                  // empty key
                _ => {
                    let q = if val.contains('"') { '\'' } else if val.contains('\'') { '"' } else if rng.gen_bool(0.5) { '"' } else { '\'' };
                    let val = if q == '\'' { val.replace('\'', "") } else { val.replace('"', "") };
                    s.push_str(key);
                    s.push_str(sps[rng.gen_range(0..sps.len())]);
                    s.push('=');
                    s.push_str(sps[rng.gen_range(0..sps.len())]);
                    s.push(q);
                    s.push_str(&val);
                    s.push(q);
                }
            }
        }
        if rng.gen_bool(0.3) {
            s.push_str([" ", "/", " /"][rng.gen_range(0..3)]);
        }
        let html = rng.gen_bool(0.4);
        let chk = rng.gen_bool(0.7);
        let (items, fused) = iterate(&s, pos, html, chk);
        let rows: Vec<Value> = items.iter().map(|it| json!([it.k, it.key, it.val, it.e, it.p1, it.p2])).collect();
        if items.len() >= 2 {
            nontriv += 1;
        }
        if samples.len() < 3 && had_fault && items.len() >= 3 {
            samples.push(json!({"tag": s, "html": html, "checks": chk, "items": items}));
        }
        writeln!(f, "{}", json!({"t": "Attrs", "s": s.as_bytes(), "pos": pos, "html": if html {1} else {0}, "chk": if chk {1} else {0},
            "items": rows, "fused": if fused {1} else {0}, "run": i})).unwrap();
        events += 1;
    }
    f.flush().unwrap();
    json!({"traces": events, "events": events, "nontrivial": nontriv, "samples": samples, "runs": events, "comparisons": events})
}
