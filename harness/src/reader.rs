//! Driving the real `Reader` over the three source kinds with a script of
//! calls, and projecting every return into `Obs`.

use std::panic::{catch_unwind, AssertUnwindSafe};

use quick_xml::events::Event;
use quick_xml::name::QName;
use quick_xml::reader::Reader;
use serde::{Deserialize, Serialize};

use crate::env::{Chunked, EnvEv, Plan};
use crate::obs::{project, project_err, touch_accessors, Obs};

pub type CfgBits = [u8; 7];
pub const NEUTRAL: CfgBits = [1, 0, 0, 0, 0, 0, 0];
pub const DEFAULT: CfgBits = [0, 0, 1, 0, 1, 0, 0];

pub fn apply_cfg(c: &mut quick_xml::reader::Config, b: &CfgBits) {
    c.allow_unmatched_ends = b[0] != 0;
    c.check_comments = b[1] != 0;
    c.check_end_names = b[2] != 0;
    c.expand_empty_elements = b[3] != 0;
    c.trim_markup_names_in_closing_tags = b[4] != 0;
    c.trim_text_start = b[5] != 0;
    c.trim_text_end = b[6] != 0;
}
/// Initial configuration of a run: the library's own defaults are left untouched when the requested configuration is
/// the documented default (so that a changed default is observed), every switch is assigned otherwise.
pub fn apply_initial(c: &mut quick_xml::reader::Config, b: &CfgBits) {
    if *b != DEFAULT {
        apply_cfg(c, b);
    }
}
pub fn read_cfg(c: &quick_xml::reader::Config) -> CfgBits {
    [
        c.allow_unmatched_ends as u8,
        c.check_comments as u8,
        c.check_end_names as u8,
        c.expand_empty_elements as u8,
        c.trim_markup_names_in_closing_tags as u8,
        c.trim_text_start as u8,
        c.trim_text_end as u8,
    ]
}

#[derive(Clone, Debug, Serialize, Deserialize, PartialEq)]
#[serde(tag = "op")]
pub enum Step {
    /// read_event / read_event_into / read_event_into_async
    #[serde(rename = "read")]
    Read,
    /// config_mut() assignment between two calls
    #[serde(rename = "cfg")]
    SetCfg { cfg: CfgBits },
    /// read_to_end* with the name of the most recent Start event
    #[serde(rename = "rte")]
    ReadToEnd,
    /// read_to_end* called later than right after the Start event (after text, children, end tags), with the name of the
    /// last Start event read
    #[serde(rename = "rtea")]
    ReadToEndAny,
    /// read_text (slice only; other sources use read_to_end_into and report the span)
    #[serde(rename = "rtext")]
    ReadText,
    /// Config::trim_text(on) / Config::enable_all_checks(on) between two calls
    #[serde(rename = "hlp")]
    Helper { name: String, on: bool },
    /// Reader::stream(): take up to `n` raw bytes through io::Read (`buf` = false) or fill_buf/consume (`buf` = true)
    #[serde(rename = "raw")]
    Stream { n: usize, buf: bool },
}

/// Observation of one step. For Read: the projected result. For ReadToEnd /
/// ReadText: k = "Span" with `s` = [start, end] (and `b` = text for ReadText)
/// or k = "Err". `c` = configuration as read back after the step.
#[derive(Clone, Debug, Serialize, Deserialize, PartialEq, Default)]
pub struct StepObs {
    #[serde(flatten)]
    pub o: Obs,
    #[serde(default, skip_serializing_if = "Option::is_none")]
    pub s: Option<(u64, u64)>,
    #[serde(default, skip_serializing_if = "Option::is_none")]
    pub c: Option<CfgBits>,
    /// what was actually called: "read" | "rte" | "cfg" (a skip step is executed
    /// as a plain read unless the previous call returned a Start event - the
    /// documented precondition of read_to_end / read_text)
    #[serde(default)]
    pub did: String,
}

#[derive(Clone, Debug)]
pub enum Src {
    /// Reader::from_reader(&[u8])
    Slice,
    /// Reader::from_str (input must be UTF-8)
    Str,
    Buffered(Plan),
    Async(Plan),
    /// Reader::from_file (a BufReader over a real file)
    File,
    /// NsReader::from_reader(&[u8]), read with read_resolved_event (the same events, plus namespace bookkeeping)
    Ns,
    /// NsReader over a chunked BufRead, read with read_resolved_event_into
    NsBuffered(Plan),
}

pub struct Run {
    pub obs: Vec<StepObs>,
    pub env: Vec<EnvEv>,
    /// index into `obs` -> index into `env` at the time the step returned
    pub env_at: Vec<usize>,
}

macro_rules! drive {
    ($reader:ident, $steps:ident, $out:ident, $env_len:expr,
     read: $read:expr, rte: $rte:expr, rtext: $rtext:expr, stream: $stream:expr) => {{
        let mut last_start: Vec<u8> = Vec::new();
        let mut fresh_start = false;
        // after Eof or a syntax error the reader is finished; raw reads are then outside the modelled domain
        // (XmlRead: ps = "Done"; the slice source keeps the bytes of the broken construct although the position covers them)
        let mut finished = false;
        for st in $steps {
            let st = match st {
                Step::ReadToEndAny if last_start.is_empty() => &Step::Read,
                Step::ReadToEndAny => &Step::ReadToEnd,
                Step::ReadToEnd | Step::ReadText if !fresh_start => &Step::Read,
                Step::Stream { .. } if finished => &Step::Read,
                s => s,
            };
            let so = match st {
                Step::SetCfg { cfg } => {
                    apply_cfg($reader.config_mut(), cfg);
                    StepObs {
                        o: Obs { k: "Cfg".into(), p: $reader.buffer_position(), q: $reader.error_position(), ..Default::default() },
                        s: None,
                        c: Some(read_cfg($reader.config())),
                        did: "cfg".into(),
                    }
                }
                Step::Helper { name, on } => {
                    if name == "trim_text" {
                        $reader.config_mut().trim_text(*on);
                    } else {
                        $reader.config_mut().enable_all_checks(*on);
                    }
                    StepObs {
                        o: Obs { k: "Cfg".into(), p: $reader.buffer_position(), q: $reader.error_position(), ..Default::default() },
                        s: None,
                        c: Some(read_cfg($reader.config())),
                        did: "cfg".into(),
                    }
                }
                Step::Read => {
                    fresh_start = false;
                    let r = catch_unwind(AssertUnwindSafe(|| {
                        let res = $read;
                        if let Ok(ev) = &res {
                            touch_accessors(ev);
                            if let Event::Start(e) = ev {
                                last_start = e.name().as_ref().to_vec();
                                fresh_start = true;
                            }
                        }
                        project(&res)
                    }));
                    match r {
                        Ok(mut o) => {
                            o.p = $reader.buffer_position();
                            o.q = $reader.error_position();
                            if o.k == "Eof" || (o.k == "Err" && !o.e.starts_with("IllFormed")) {
                                finished = true;
                            }
                            StepObs { o, s: None, c: None, did: "read".into() }
                        }
                        Err(_) => StepObs { o: Obs { k: "Panic".into(), ..Default::default() }, s: None, c: None, did: "read".into() },
                    }
                }
                Step::Stream { n, buf } => {
                    fresh_start = false;
                    let (n, via_buf) = (*n, *buf);
                    let r = catch_unwind(AssertUnwindSafe(|| -> std::io::Result<Vec<u8>> { ($stream)(n, via_buf) }));
                    match r {
                        Ok(Ok(bytes)) => StepObs {
                            o: Obs { k: "Raw".into(), b: bytes, p: $reader.buffer_position(), q: $reader.error_position(), ..Default::default() },
                            s: None,
                            c: None,
                            did: "raw".into(),
                        },
                        Ok(Err(_)) => StepObs {
                            o: Obs { k: "Err".into(), e: "Io".into(), p: $reader.buffer_position(), q: $reader.error_position(), ..Default::default() },
                            s: None,
                            c: None,
                            did: "raw".into(),
                        },
                        Err(_) => StepObs { o: Obs { k: "Panic".into(), ..Default::default() }, s: None, c: None, did: "raw".into() },
                    }
                }
                Step::ReadToEndAny => unreachable!("converted above"),
                Step::ReadToEnd | Step::ReadText => {
                    fresh_start = false;
                    let name = last_start.clone();
                    let want_text = matches!(st, Step::ReadText);
                    let r = catch_unwind(AssertUnwindSafe(|| {
                        let qn = QName(&name);
                        if want_text {
                            ($rtext)(qn)
                        } else {
                            ($rte)(qn).map(|sp: std::ops::Range<u64>| (sp, None))
                        }
                    }));
                    match r {
                        Ok(Ok((sp, txt))) => StepObs {
                            o: Obs {
                                k: "Span".into(),
                                b: txt.unwrap_or_default(),
                                p: $reader.buffer_position(),
                                q: $reader.error_position(),
                                ..Default::default()
                            },
                            s: Some((sp.start, sp.end)),
                            c: Some(read_cfg($reader.config())),
                            did: "rte".into(),
                        },
                        Ok(Err(e)) => {
                            let mut o = project_err(&e);
                            o.p = $reader.buffer_position();
                            o.q = $reader.error_position();
                            if !o.e.starts_with("IllFormed") {
                                finished = true;
                            }
                            StepObs { o, s: None, c: Some(read_cfg($reader.config())), did: "rte".into() }
                        }
                        Err(_) => StepObs { o: Obs { k: "Panic".into(), ..Default::default() }, s: None, c: None, did: "rte".into() },
                    }
                }
            };
            let stop = so.o.k == "Panic";
            $out.obs.push(so);
            $out.env_at.push($env_len);
            if stop {
                break;
            }
        }
    }};
}

pub fn run_reader(input: &[u8], cfg: &CfgBits, steps: &[Step], src: &Src) -> Run {
    let mut out = Run { obs: Vec::new(), env: Vec::new(), env_at: Vec::new() };
    match src {
        Src::Slice | Src::Str => {
            let mut reader = if matches!(src, Src::Str) {
                Reader::from_str(std::str::from_utf8(input).expect("Str source needs UTF-8"))
            } else {
                Reader::from_reader(input)
            };
            apply_initial(reader.config_mut(), cfg);
            drive!(reader, steps, out, 0,
                read: reader.read_event(),
                rte: |qn| reader.read_to_end(qn),
                rtext: |qn| -> Result<(std::ops::Range<u64>, Option<Vec<u8>>), quick_xml::Error> {
                    // read_text does not return the span; take it from the positions
                    let start = reader.buffer_position();
                    let t = reader.read_text(qn)?;
                    let t = t.into_owned().into_bytes();
                    Ok((start..start + t.len() as u64, Some(t)))
                },
                stream: |n: usize, via_buf: bool| -> std::io::Result<Vec<u8>> { crate::reader::take_raw(&mut reader.stream(), n, via_buf) });
        }
        Src::Buffered(plan) => {
            let src = Chunked::new(input, plan.clone());
            let log = src.log.clone();
            let mut reader = Reader::from_reader(src);
            apply_initial(reader.config_mut(), cfg);
            let mut buf = Vec::new();
            drive!(reader, steps, out, log.borrow().len(),
                read: { buf.clear(); reader.read_event_into(&mut buf) },
                rte: |qn| { buf.clear(); reader.read_to_end_into(qn, &mut buf) },
                rtext: |qn| -> Result<(std::ops::Range<u64>, Option<Vec<u8>>), quick_xml::Error> {
                    buf.clear();
                    reader.read_to_end_into(qn, &mut buf).map(|sp| (sp, None))
                },
                stream: |n: usize, via_buf: bool| -> std::io::Result<Vec<u8>> { crate::reader::take_raw(&mut reader.stream(), n, via_buf) });
            out.env = log.borrow().clone();
        }
        Src::File => {
            let dir = std::env::temp_dir().join(format!("qxv-{}", std::process::id()));
            std::fs::create_dir_all(&dir).expect("scratch dir");
            let path = dir.join("input.xml");
            std::fs::write(&path, input).expect("scratch file");
            let mut reader = Reader::from_file(&path).expect("from_file");
            apply_initial(reader.config_mut(), cfg);
            let mut buf = Vec::new();
            drive!(reader, steps, out, 0,
                read: { buf.clear(); reader.read_event_into(&mut buf) },
                rte: |qn| { buf.clear(); reader.read_to_end_into(qn, &mut buf) },
                rtext: |qn| -> Result<(std::ops::Range<u64>, Option<Vec<u8>>), quick_xml::Error> {
                    buf.clear();
                    reader.read_to_end_into(qn, &mut buf).map(|sp| (sp, None))
                },
                stream: |n: usize, via_buf: bool| -> std::io::Result<Vec<u8>> { crate::reader::take_raw(&mut reader.stream(), n, via_buf) });
            std::fs::remove_file(&path).ok();
            std::fs::remove_dir(&dir).ok();
        }
        Src::Ns => {
            let mut reader = quick_xml::NsReader::from_reader(input);
            apply_initial(reader.config_mut(), cfg);
            drive!(reader, steps, out, 0,
                read: reader.read_resolved_event().map(|(r, e)| { let _ = format!("{:?}", r); e }),
                rte: |qn| reader.read_to_end(qn),
                rtext: |qn| -> Result<(std::ops::Range<u64>, Option<Vec<u8>>), quick_xml::Error> {
                    let start = reader.buffer_position();
                    let t = reader.read_text(qn)?;
                    let t = t.into_owned().into_bytes();
                    Ok((start..start + t.len() as u64, Some(t)))
                },
                stream: |_n: usize, _b: bool| -> std::io::Result<Vec<u8>> { Err(std::io::Error::new(std::io::ErrorKind::Other, "verif: no raw reads on NsReader")) });
        }
        Src::NsBuffered(plan) => {
            let src = Chunked::new(input, plan.clone());
            let log = src.log.clone();
            let mut reader = quick_xml::NsReader::from_reader(src);
            apply_initial(reader.config_mut(), cfg);
            let mut buf = Vec::new();
            drive!(reader, steps, out, log.borrow().len(),
                read: { buf.clear(); reader.read_resolved_event_into(&mut buf).map(|(r, e)| { let _ = format!("{:?}", r); e }) },
                rte: |qn| { buf.clear(); reader.read_to_end_into(qn, &mut buf) },
                rtext: |qn| -> Result<(std::ops::Range<u64>, Option<Vec<u8>>), quick_xml::Error> {
                    buf.clear();
                    reader.read_to_end_into(qn, &mut buf).map(|sp| (sp, None))
                },
                stream: |_n: usize, _b: bool| -> std::io::Result<Vec<u8>> { Err(std::io::Error::new(std::io::ErrorKind::Other, "verif: no raw reads on NsReader")) });
            out.env = log.borrow().clone();
        }
        Src::Async(plan) => {
            let src = Chunked::new(input, plan.clone());
            let log = src.log.clone();
            let mut reader = Reader::from_reader(src);
            apply_initial(reader.config_mut(), cfg);
            let mut buf = Vec::new();
            drive!(reader, steps, out, log.borrow().len(),
                read: { buf.clear(); crate::env::block_on(reader.read_event_into_async(&mut buf)) },
                rte: |qn| { buf.clear(); crate::env::block_on(reader.read_to_end_into_async(qn, &mut buf)) },
                rtext: |qn| -> Result<(std::ops::Range<u64>, Option<Vec<u8>>), quick_xml::Error> {
                    buf.clear();
                    crate::env::block_on(reader.read_to_end_into_async(qn, &mut buf)).map(|sp| (sp, None))
                },
                stream: |n: usize, via_buf: bool| -> std::io::Result<Vec<u8>> {
                    let remaining = input.len().saturating_sub(reader.stream().offset() as usize);
                    crate::env::block_on(crate::reader::take_raw_async(&mut reader.stream(), n, via_buf, remaining))
                });
            out.env = log.borrow().clone();
        }
    }
    out
}

/// Take up to `n` bytes from a `BinaryStream`: repeated `read` calls (short reads are legal and are what a chunked
/// source produces) or `fill_buf` + `consume`, until `n` bytes were taken or the source is exhausted.
pub fn take_raw<S: std::io::BufRead>(s: &mut S, n: usize, via_buf: bool) -> std::io::Result<Vec<u8>> {
    let mut out = Vec::new();
    if via_buf {
        while out.len() < n {
            let avail = s.fill_buf()?;
            if avail.is_empty() {
                break;
            }
            let k = avail.len().min(n - out.len());
            out.extend_from_slice(&avail[..k]);
            s.consume(k);
        }
    } else {
        let mut b = vec![0u8; n];
        loop {
            let k = s.read(&mut b[out.len()..])?;
            // (the buffer handed to `read` is always the whole remaining window: a short read leaves it larger than the result)
            if k == 0 {
                break;
            }
            let from = out.len();
            out.extend_from_slice(&b[from..from + k].to_vec());
            if out.len() == n {
                break;
            }
        }
    }
    Ok(out)
}

/// The same through the tokio traits of `BinaryStream`: `read_exact` keeps polling with ONE partly filled `ReadBuf` while the
/// source delivers pieces (and answers Pending); `fill_buf` + `consume` otherwise.  `remaining` = bytes the source still has.
pub async fn take_raw_async<S: tokio::io::AsyncBufRead + tokio::io::AsyncRead + Unpin>(s: &mut S, n: usize, via_buf: bool, remaining: usize) -> std::io::Result<Vec<u8>> {
    use tokio::io::{AsyncBufReadExt, AsyncReadExt};
    let mut out = Vec::new();
    if via_buf {
        while out.len() < n {
            let avail = s.fill_buf().await?;
            if avail.is_empty() {
                break;
            }
            let k = avail.len().min(n - out.len());
            out.extend_from_slice(&avail[..k]);
            s.consume(k);
        }
    } else {
        let m = n.min(remaining);
        let mut b = vec![0u8; m];
        if m > 0 {
            s.read_exact(&mut b).await?;
        } else {
            let mut one = [0u8; 1];
            let k = s.read(&mut one).await?;
            b.extend_from_slice(&one[..k]);
        }
        out = b;
    }
    Ok(out)
}

/// `n` plain read steps
pub fn reads(n: usize) -> Vec<Step> {
    vec![Step::Read; n]
}

/// C08: read every event and write it back with `Writer::write_event`.
/// Errors are skipped (a fatal one is followed by Eof). Returns the bytes written,
/// or None when the code under test panicked.
pub fn read_write(input: &[u8], cfg: &CfgBits, plan: Option<&Plan>) -> Option<Vec<u8>> {
    // the sink is part of the environment: one that takes everything, one that takes a byte per call, one that takes three
    let whole = read_write_into(input, cfg, plan, usize::MAX)?;
    for max in [1usize, 3] {
        let short = read_write_into(input, cfg, plan, max)?;
        if short != whole {
            return Some(short);
        }
    }
    Some(whole)
}

fn read_write_into(input: &[u8], cfg: &CfgBits, plan: Option<&Plan>, max: usize) -> Option<Vec<u8>> {
    let r = catch_unwind(AssertUnwindSafe(|| {
        let mut w = quick_xml::Writer::new(crate::env::ShortSink::new(max));
        let bound = input.len() + 5;
        match plan {
            None => {
                let mut reader = Reader::from_reader(input);
                apply_initial(reader.config_mut(), cfg);
                for _ in 0..bound {
                    match reader.read_event() {
                        Ok(Event::Eof) => break,
                        Ok(ev) => w.write_event(ev).unwrap(),
                        Err(_) => {}
                    }
                }
            }
            Some(p) => {
                let mut reader = Reader::from_reader(Chunked::new(input, p.clone()));
                apply_initial(reader.config_mut(), cfg);
                let mut buf = Vec::new();
                for _ in 0..bound {
                    buf.clear();
                    match reader.read_event_into(&mut buf) {
                        Ok(Event::Eof) => break,
                        Ok(ev) => w.write_event(ev).unwrap(),
                        Err(_) => {}
                    }
                }
            }
        }
        w.into_inner().out
    }));
    r.ok()
}
