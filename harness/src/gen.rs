//! Seeded generators of stimuli for leg (C): grammar-based documents that
//! favour the constructs whose delimiters are easy to get wrong, token-level
//! and byte-level mutation, random bytes.

use rand::rngs::StdRng;
use rand::seq::SliceRandom;
use rand::Rng;

pub const NAMES: &[&str] = &["a", "ab", "b", "a:b", "p:a", "é", "x1", "item", "a.b-c"];
const TEXTS: &[&str] = &[
    "x", " ", "  ", "\n\t", "text", " lead", "trail ", "a&amp;b", "&lt;", "&#60;", "&#x3C;", "]]", "]]>", "--", "->", "?>",
    "é", "日本", "'", "\"", "a=b", "/", "&", "&;", "&#;", "&unknown;", "\r\n",
];
const ATTR_VALUES: &[&str] = &["", "1", ">", "/>", "a b", "'", "\"", "&amp;", "&lt;", "<", "é", "?>", "-->", "]]>", " x ", "="];
const COMMENTS: &[&str] = &["", "-", " x ", ">", "->", "-->-", "a--b", "a-", "</a>", "<a>", "]]>", "?>", "\n", "é"];
const CDATAS: &[&str] = &["", "]", "]]", "]>", "x]]y", ">", "</a>", "<a/>", "&amp;", "]]]", " ", "é", "--"];
const PIS: &[&str] = &["", "t", "t x", "t ?", "t >", "t ?x>", "xml", "xmlx", "xml-stylesheet href='>'", "?", " t"];
const DOCTYPES: &[&str] = &[
    "a", " a", "a [<!ENTITY x \">\">]", "a [<!ELEMENT a (b)><!-- > -->]", "a [<!-- <!ELEMENT a ANY> -->]", "a [<!ENTITY % x '<!-- <y><z/> -->'>]>", "a [<a<b<c>>>]", "a SYSTEM 'x>'", "", " ", "a<b>c", "html",
];

pub fn pick<'a>(rng: &mut StdRng, xs: &[&'a str]) -> &'a str {
    xs[rng.gen_range(0..xs.len())]
}

fn attrs(rng: &mut StdRng, out: &mut String) {
    let n = [0, 0, 0, 1, 1, 2, 3][rng.gen_range(0..7)];
    for i in 0..n {
        let sp = ["", " ", "  ", "\n", "\t"][rng.gen_range(0..5)];
        let key = ["k", "a", "xmlns", "xmlns:p", "p:a", "xsi:nil", "é"][rng.gen_range(0..7)];
        let v = pick(rng, ATTR_VALUES);
        let q = if v.contains('"') { '\'' } else if v.contains('\'') { '"' } else if rng.gen_bool(0.5) { '"' } else { '\'' };
        let eq = ["=", " =", "= ", " = "][rng.gen_range(0..4)];
        out.push(' ');
        out.push_str(sp);
        out.push_str(key);
        if i > 0 && rng.gen_bool(0.1) {
            out.push_str("2");
        }
        out.push_str(eq);
        out.push(q);
        out.push_str(v);
        out.push(q);
    }
    if rng.gen_bool(0.2) {
        out.push(' ');
    }
}

fn content(rng: &mut StdRng, out: &mut String, depth: usize, budget: &mut i32) {
    let n = rng.gen_range(0..5);
    for _ in 0..n {
        if *budget <= 0 {
            return;
        }
        *budget -= 1;
        match rng.gen_range(0..12) {
            0..=3 => out.push_str(pick(rng, TEXTS)),
            4..=6 if depth < 6 => element(rng, out, depth + 1, budget),
            7 => {
                out.push_str("<!--");
                out.push_str(pick(rng, COMMENTS));
                out.push_str("-->");
            }
            8 => {
                out.push_str("<![CDATA[");
                out.push_str(pick(rng, CDATAS));
                out.push_str("]]>");
            }
            9 => {
                out.push_str("<?");
                out.push_str(pick(rng, PIS));
                out.push_str("?>");
            }
            10 => {
                let name = pick(rng, NAMES);
                out.push('<');
                out.push_str(name);
                attrs(rng, out);
                out.push_str("/>");
            }
            _ => out.push_str(pick(rng, TEXTS)),
        }
    }
}

fn element(rng: &mut StdRng, out: &mut String, depth: usize, budget: &mut i32) {
    let name = pick(rng, NAMES);
    out.push('<');
    out.push_str(name);
    attrs(rng, out);
    out.push('>');
    content(rng, out, depth, budget);
    out.push_str("</");
    // sometimes close with another name / trailing space
    if rng.gen_bool(0.06) {
        out.push_str(pick(rng, NAMES));
    } else {
        out.push_str(name);
    }
    if rng.gen_bool(0.15) {
        out.push_str([" ", "  ", "\n"][rng.gen_range(0..3)]);
    }
    out.push('>');
}

/// A (mostly) well-formed document of roughly `size` constructs.
pub fn document(rng: &mut StdRng, size: i32) -> Vec<u8> {
    let mut out = String::new();
    if rng.gen_bool(0.1) {
        out.push('\u{feff}');
    }
    if rng.gen_bool(0.3) {
        out.push_str(["<?xml version=\"1.0\"?>", "<?xml version='1.0' encoding='UTF-8'?>", "<?xml?>", "<?xml version=\"1.1\" standalone=\"yes\" ?>"][rng.gen_range(0..4)]);
    }
    if rng.gen_bool(0.2) {
        out.push_str(["<!DOCTYPE", "<!doctype", "<!DocType"][rng.gen_range(0..3)]);
        if rng.gen_bool(0.8) {
            out.push(' ');
        }
        out.push_str(pick(rng, DOCTYPES));
        out.push('>');
    }
    if rng.gen_bool(0.3) {
        out.push_str(pick(rng, TEXTS));
    }
    let mut budget = size;
    while budget > 0 {
        element(rng, &mut out, 0, &mut budget);
        budget -= 1;
        if rng.gen_bool(0.3) {
            out.push_str(pick(rng, TEXTS));
        }
        if rng.gen_bool(0.5) {
            break;
        }
    }
    out.into_bytes()
}

const MARKUP_BYTES: &[u8] = b"<>/?!-[]'\"= \t\nDdxml&;#aCT";

/// Byte-level mutation: delete / insert / replace / duplicate / truncate.
pub fn mutate(rng: &mut StdRng, doc: &[u8], n: usize) -> Vec<u8> {
    let mut d = doc.to_vec();
    for _ in 0..n {
        if d.is_empty() {
            d.push(*MARKUP_BYTES.choose(rng).unwrap());
            continue;
        }
        let i = rng.gen_range(0..d.len());
        match rng.gen_range(0..6) {
            0 => {
                d.remove(i);
            }
            1 => d.insert(i, *MARKUP_BYTES.choose(rng).unwrap()),
            2 => d[i] = *MARKUP_BYTES.choose(rng).unwrap(),
            3 => {
                let j = rng.gen_range(i..d.len().min(i + 12));
                let seg: Vec<u8> = d[i..=j.min(d.len() - 1)].to_vec();
                let at = rng.gen_range(0..=d.len());
                for (k, b) in seg.iter().enumerate() {
                    d.insert(at + k, *b);
                }
            }
            4 => d.truncate(i),
            _ => d[i] = rng.gen(),
        }
    }
    d
}

/// Random bytes over all 256 values, biased towards markup bytes.
pub fn random_bytes(rng: &mut StdRng, len: usize) -> Vec<u8> {
    (0..len)
        .map(|_| if rng.gen_bool(0.6) { *MARKUP_BYTES.choose(rng).unwrap() } else { rng.gen() })
        .collect()
}

/// A random way of cutting `n` bytes into pieces.
pub fn random_cuts(rng: &mut StdRng, n: usize) -> Vec<usize> {
    match rng.gen_range(0..6) {
        0 => vec![1; n + 1],
        1 => vec![2; n / 2 + 1],
        2 => vec![3; n / 3 + 1],
        3 => vec![7; n / 7 + 1],
        4 => vec![],
        _ => {
            let mut c = Vec::new();
            let mut left = n;
            let maxp = [2usize, 5, 16, 64][rng.gen_range(0..4)];
            while left > 0 {
                let k = rng.gen_range(1..=left.min(maxp));
                c.push(k);
                left -= k;
            }
            c
        }
    }
}
