//! Leg (C) for the reader group: drive the real reader with generated stimuli
//! and write one ndjson record per public call for `spec/TraceReader.tla`.

use std::io::Write;

use rand::rngs::StdRng;
use rand::{Rng, SeedableRng};
use serde_json::json;

use crate::env::{EnvEv, Plan};
use crate::gen;
use crate::reader::{run_reader, CfgBits, Src, Step};

pub struct Opts {
    pub out: String,
    pub seed: u64,
    pub n: usize,
    /// doc | mut | rand | corpus | small  (comma separated)
    pub kinds: String,
    /// plain | flips | skips | faults | mix
    pub script: String,
    pub max_len: usize,
    pub enc: bool,
    /// slice-only sources (C01/C08) or all
    pub sources: String,
}

fn corpus() -> Vec<Vec<u8>> {
    let mut v = Vec::new();
    if let Ok(rd) = std::fs::read_dir("/repo/tests/documents") {
        let mut paths: Vec<_> = rd.filter_map(|e| e.ok()).map(|e| e.path()).filter(|p| p.is_file()).collect();
        paths.sort();
        for p in paths {
            if let Ok(b) = std::fs::read(&p) {
                v.push(b);
            }
        }
    }
    v
}

pub fn run(o: &Opts) -> serde_json::Value {
    let mut rng = StdRng::seed_from_u64(o.seed);
    let mut f = std::io::BufWriter::new(std::fs::File::create(&o.out).expect("trace file"));
    let kinds: Vec<&str> = o.kinds.split(',').collect();
    let corp = if kinds.contains(&"corpus") { corpus() } else { vec![] };
    let mut events = 0u64;
    let mut traces = 0u64;
    let mut nontrivial = 0u64;
    let mut bytes = 0u64;
    let mut samples = Vec::new();
    let mut seen = std::collections::HashSet::new();
    for i in 0..o.n {
        let kind = kinds[i % kinds.len()];
        let mut input = match kind {
            "doc" => { let sz = [3, 8, 20, 60][rng.gen_range(0..4)]; gen::document(&mut rng, sz) }
            "mut" => {
                let sz = [3, 8, 20][rng.gen_range(0..3)];
                let d = gen::document(&mut rng, sz);
                let n = rng.gen_range(1..4);
                gen::mutate(&mut rng, &d, n)
            }
            "rand" => {
                let n = rng.gen_range(0..40);
                gen::random_bytes(&mut rng, n)
            }
            "small" => {
                let n = rng.gen_range(0..8);
                gen::random_bytes(&mut rng, n)
            }
            "corpus" if !corp.is_empty() => {
                let d = &corp[i / kinds.len() % corp.len()];
                if rng.gen_bool(0.5) { d.clone() } else { let n = rng.gen_range(1..3); gen::mutate(&mut rng, d, n) }
            }
            _ => gen::document(&mut rng, 5),
        };
        if input.len() > o.max_len {
            // cut at a random place so that the failure paths are exercised too
            let at = rng.gen_range(o.max_len / 2..=o.max_len);
            input.truncate(at);
        }
        let mut cfg: CfgBits = [0; 7];
        match rng.gen_range(0..4) {
            0 => cfg = crate::reader::DEFAULT,
            1 => cfg = crate::reader::NEUTRAL,
            _ => {
                for b in cfg.iter_mut() {
                    *b = rng.gen_range(0..2);
                }
            }
        }
        let script = if o.script == "mix" { ["plain", "flips", "skips", "faults"][rng.gen_range(0..4)] } else { o.script.as_str() };
        // upper bound on the number of calls: every call consumes >= 1 byte or is one of O(1) extra calls per event
        let calls = input.len() + 4;
        let mut steps = Vec::with_capacity(calls);
        for _ in 0..calls {
            match script {
                "flips" if rng.gen_bool(0.04) => {
                    steps.push(Step::Helper { name: if rng.gen_bool(0.5) { "trim_text".into() } else { "enable_all_checks".into() }, on: rng.gen_bool(0.5) });
                    // (the running `cfg` of the generator is only a base for later flips; the reader's own state is what counts)
                }
                "flips" if rng.gen_bool(0.15) => {
                    let mut c = cfg;
                    for _ in 0..rng.gen_range(1..3) {
                        let j = rng.gen_range(0..7);
                        c[j] ^= 1;
                    }
                    cfg_last(&mut steps, c);
                }
                "raw" if rng.gen_bool(0.15) && !steps.is_empty() && !matches!(input.first(), Some(0xEF | 0xFE | 0xFF | 0x00)) => {
                    let n = [1usize, 2, 5, 17, 4096][rng.gen_range(0..5)];
                    steps.push(Step::Stream { n, buf: rng.gen_bool(0.5) });
                    continue;
                }
                "skips" if rng.gen_bool(0.12) => {
                    steps.push(if rng.gen_bool(0.5) { Step::ReadToEnd } else { Step::ReadText });
                    continue;
                }
                _ => {}
            }
            steps.push(Step::Read);
        }
        // read_text decodes the span: only meaningful for input the decoder in force can decode
        // (UTF-8 without the encoding feature); otherwise use read_to_end, which reports the span only
        if std::str::from_utf8(&input).is_err() {
            for st in steps.iter_mut() {
                if matches!(st, Step::ReadText) {
                    *st = Step::ReadToEnd;
                }
            }
        }
        if script == "bom" {
            // C14: a UTF-8 document with a byte-order mark, delivered in arbitrary pieces (also a first piece shorter than the mark)
            let mut v = vec![0xEF, 0xBB, 0xBF];
            while input.starts_with(&[0xEF, 0xBB, 0xBF]) {
                input.drain(..3);
            }
            v.extend_from_slice(&input);
            input = v;
        }
        let n = input.len();
        let bom_like = crate::env::starts_with_signature(&input);
        let mut cuts = gen::random_cuts(&mut rng, n);
        if script == "bom" && rng.gen_bool(0.5) {
            cuts.insert(0, rng.gen_range(1..4));
        }
        if bom_like && !cuts.is_empty() && script != "bom" {
            // the encoding/BOM sniff may look only at the first piece (C02's exception)
            let mut first = 0;
            let mut j = 0;
            while first < 4.min(n) && j < cuts.len() {
                first += cuts[j];
                j += 1;
            }
            let mut nc = vec![first.max(1)];
            nc.extend_from_slice(&cuts[j..]);
            cuts = nc;
        }
        let mut plan = Plan { cuts, ..Default::default() };
        if script == "faults" {
            let refills = n + 2;
            for _ in 0..rng.gen_range(0..4) {
                plan.interrupts.push((rng.gen_range(0..refills), rng.gen_range(1..4)));
            }
            if rng.gen_bool(0.6) {
                plan.error_at = Some(rng.gen_range(0..refills));
                plan.error_kind = rng.gen_range(0..crate::env::ERROR_KINDS.len());
            }
        }
        let src = if o.sources == "slice" {
            if std::str::from_utf8(&input).is_ok() && rng.gen_bool(0.3) { Src::Str } else { Src::Slice }
        } else {
            match rng.gen_range(0..if script == "faults" { 2 } else { 4 }) {
                0 => Src::Buffered(plan.clone()),
                1 => {
                    plan.pendings = vec![rng.gen_range(0..3), rng.gen_range(0..2), 0];
                    Src::Async(plan.clone())
                }
                2 => Src::Slice,
                _ => if std::str::from_utf8(&input).is_ok() { Src::Str } else { Src::Slice },
            }
        };
        // the namespace-aware reader returns the same events; (inputs that may contain namespace declarations are C05's subject)
        let src = if o.sources != "slice" && script != "raw" && script != "faults" && script != "bom" && rng.gen_bool(0.15) && !input.windows(5).any(|w| w == b"xmlns") {
            match src {
                Src::Buffered(p) | Src::Async(p) => Src::NsBuffered(Plan { pendings: vec![], ..p }),
                _ => Src::Ns,
            }
        } else {
            src
        };
        let src_name = match &src { Src::Slice => "slice", Src::Str => "str", Src::Buffered(_) => "buffered", Src::Async(_) => "async", Src::Ns => "ns", Src::NsBuffered(_) => "ns-buffered", Src::File => "file" };
        let r = run_reader(&input, &cfg, &steps, &src);
        // ---- write the trace
        let first = match &src {
            Src::Buffered(p) | Src::Async(p) | Src::NsBuffered(p) => p.cuts.first().copied().unwrap_or(input.len()).max(1),
            _ => input.len() + 4,
        };
        writeln!(f, "{}", json!({"t": "Reset", "in": input, "cfg": cfg, "enc": if o.enc {1} else {0}, "src": src_name, "run": i, "first": first})).unwrap();
        events += 1;
        let mut eofs = 0;
        let mut any_markup = false;
        for (si, so) in r.obs.iter().enumerate() {
            let eff = match (&steps[si], so.did.as_str()) {
                (Step::SetCfg { .. }, _) => steps[si].clone(),
                (Step::Helper { .. }, _) => steps[si].clone(),
                (Step::Stream { .. }, "raw") => steps[si].clone(),
                (_, "rte") => steps[si].clone(),
                _ => Step::Read,
            };
            match &eff {
                Step::SetCfg { cfg } => {
                    writeln!(f, "{}", json!({"t": "Cfg", "cfg": cfg})).unwrap();
                }
                Step::Helper { name, on } => {
                    // the configuration as read back after the helper call; the specification computes what it must be
                    writeln!(f, "{}", json!({"t": "Cfg", "cfg": so.c.unwrap_or([9; 7]), "h": name, "on": if *on {1} else {0}})).unwrap();
                }
                Step::Read => {
                    let mut v = json!({"t": "Read", "k": so.o.k, "e": so.o.e, "b": so.o.b, "n": so.o.n, "x": so.o.x, "p": so.o.p, "q": so.o.q});
                    if so.o.k == "Err" && so.o.e == "Io" {
                        // bytes delivered when the injected error fired
                        let upto = r.env_at[si];
                        let mut d = 0usize;
                        for e in &r.env[..upto] {
                            if let EnvEv::Fill { n } = e {
                                d += n;
                            }
                        }
                        v["d"] = json!(d);
                    }
                    if !matches!(so.o.k.as_str(), "Text" | "Eof") {
                        any_markup = true;
                    }
                    writeln!(f, "{}", v).unwrap();
                    if so.o.k == "Eof" {
                        eofs += 1;
                    }
                }
                Step::Stream { n, .. } => {
                    writeln!(f, "{}", json!({"t": "Raw", "k": so.o.k, "n": n, "b": so.o.b, "p": so.o.p, "q": so.o.q})).unwrap();
                }
                Step::ReadToEndAny => {}
                Step::ReadToEnd | Step::ReadText => {
                    let txt = matches!(eff, Step::ReadText) && matches!(src, Src::Slice | Src::Str);
                    writeln!(f, "{}", json!({"t": "Rte", "k": so.o.k, "e": so.o.e, "b": so.o.b, "s": so.s.map(|(a, b)| vec![a, b]).unwrap_or_default(),
                        "p": so.o.p, "q": so.o.q, "c": so.c.unwrap_or([9; 7]), "txt": if txt {1} else {0}})).unwrap();
                }
            }
            events += 1;
            if eofs >= 2 || so.o.k == "Panic" {
                break;
            }
        }
        traces += 1;
        bytes += input.len() as u64;
        if any_markup && seen.insert(input.clone()) {
            nontrivial += 1;
        }
        if samples.len() < 3 && input.len() < 120 && any_markup {
            samples.push(json!({"input_lossy": String::from_utf8_lossy(&input), "cfg": cfg, "source": src_name, "script": script,
                "first_events": r.obs.iter().take(6).map(|o| format!("{}:{}", o.o.k, String::from_utf8_lossy(&o.o.b))).collect::<Vec<_>>()}));
        }
    }
    f.flush().unwrap();
    json!({"traces": traces, "events": events, "nontrivial": nontrivial, "bytes": bytes, "samples": samples, "runs": traces, "comparisons": events})
}

fn cfg_last(steps: &mut Vec<Step>, c: CfgBits) {
    steps.push(Step::SetCfg { cfg: c });
}


/// Leg (C) at the I/O boundary (spec/TraceSource.tla): every `fill_buf` / `consume` /
/// Interrupted / Pending / error of the environment is recorded between the Call and Ret of
/// each public call, so TLC steps Source.tla through exactly the same refills.
pub fn record_source(out: &str, seed: u64, n: usize, max_len: usize) -> serde_json::Value {
    let mut rng = StdRng::seed_from_u64(seed);
    let mut f = std::io::BufWriter::new(std::fs::File::create(out).expect("trace file"));
    let corp = corpus();
    let (mut events, mut traces, mut nontrivial, mut fills) = (0u64, 0u64, 0u64, 0u64);
    let mut samples = Vec::new();
    for i in 0..n {
        let mut input = match i % 4 {
            0 => { let sz = [3, 8, 20][rng.gen_range(0..3)]; gen::document(&mut rng, sz) }
            1 => { let d = gen::document(&mut rng, 6); let k = rng.gen_range(1..3); gen::mutate(&mut rng, &d, k) }
            2 => { let k = rng.gen_range(0..30); gen::random_bytes(&mut rng, k) }
            _ => if corp.is_empty() { gen::document(&mut rng, 5) } else { corp[i / 4 % corp.len()].clone() },
        };
        if input.len() > max_len {
            let at = rng.gen_range(max_len / 2..=max_len);
            input.truncate(at);
        }
        // Source.tla models the BOM-less stream (the sniff is exempt in C02)
        while input.starts_with(&[0xEF, 0xBB, 0xBF]) {
            input.drain(..3);
        }
        let mut cfg: CfgBits = crate::reader::DEFAULT;
        for b in cfg.iter_mut() {
            if rng.gen_bool(0.3) {
                *b ^= 1;
            }
        }
        if cfg[6] == 1 && cfg[5] == 0 {
            cfg[5] = 1; // trim_text_end without trim_text_start is the recorded finding C16-1; Source.tla is the design
        }
        let nbytes = input.len();
        let mut plan = Plan { cuts: gen::random_cuts(&mut rng, nbytes), ..Default::default() };
        let faulty = rng.gen_bool(0.4);
        if faulty {
            for _ in 0..rng.gen_range(0..3) {
                plan.interrupts.push((rng.gen_range(0..nbytes + 2), rng.gen_range(1..3)));
            }
            if rng.gen_bool(0.5) {
                plan.error_at = Some(rng.gen_range(0..nbytes + 2));
                plan.error_kind = rng.gen_range(0..crate::env::ERROR_KINDS.len());
            }
        }
        let is_async = rng.gen_bool(0.4);
        if is_async {
            plan.pendings = vec![rng.gen_range(0..3), 0, 1];
        }
        let steps = crate::reader::reads(nbytes + 4);
        let r = run_reader(&input, &cfg, &steps, &if is_async { Src::Async(plan.clone()) } else { Src::Buffered(plan.clone()) });
        writeln!(f, "{}", json!({"t": "SReset", "in": input, "cfg": cfg, "src": if is_async {"async"} else {"buffered"}, "run": i})).unwrap();
        events += 1;
        let mut e0 = 0usize;
        let mut eofs = 0;
        let mut any_markup = false;
        for (si, so) in r.obs.iter().enumerate() {
            writeln!(f, "{}", json!({"t": "SCall"})).unwrap();
            events += 1;
            let e1 = r.env_at[si];
            let evs = &r.env[e0..e1];
            let mut k = 0;
            while k < evs.len() {
                match &evs[k] {
                    EnvEv::Fb { hi } => {
                        let mut co = 0usize;
                        let mut j = k + 1;
                        while j < evs.len() {
                            match &evs[j] {
                                EnvEv::Consume { n } => co += n,
                                EnvEv::Fill { .. } => {}
                                _ => break,
                            }
                            j += 1;
                        }
                        // a Fill logged right before the next Fb belongs to that next call of fill_buf: stop before it
                        writeln!(f, "{}", json!({"t": "SFb", "hi": hi, "co": co})).unwrap();
                        events += 1;
                        fills += 1;
                        k = j;
                        continue;
                    }
                    EnvEv::Interrupted => { writeln!(f, "{}", json!({"t": "SIntr"})).unwrap(); events += 1; }
                    EnvEv::Pending => { writeln!(f, "{}", json!({"t": "SPend"})).unwrap(); events += 1; }
                    EnvEv::IoError => { writeln!(f, "{}", json!({"t": "SIo"})).unwrap(); events += 1; }
                    EnvEv::Fill { .. } | EnvEv::Consume { .. } => {}
                }
                k += 1;
            }
            e0 = e1;
            writeln!(f, "{}", json!({"t": "SRet", "k": so.o.k, "e": so.o.e, "b": so.o.b, "n": so.o.n, "x": so.o.x, "p": so.o.p, "q": so.o.q})).unwrap();
            events += 1;
            if !matches!(so.o.k.as_str(), "Text" | "Eof") {
                any_markup = true;
            }
            if so.o.k == "Eof" {
                eofs += 1;
            }
            if eofs >= 2 || so.o.k == "Panic" || (so.o.k == "Err" && so.o.e == "Io") {
                break;
            }
        }
        traces += 1;
        if any_markup {
            nontrivial += 1;
        }
        if samples.len() < 2 && any_markup && nbytes < 60 {
            samples.push(json!({"input_lossy": String::from_utf8_lossy(&input), "cuts": plan.cuts, "interrupts": plan.interrupts, "error_at": plan.error_at, "async": is_async}));
        }
    }
    f.flush().unwrap();
    json!({"traces": traces, "events": events, "nontrivial": nontrivial, "fill_buf_calls": fills, "samples": samples, "runs": traces, "comparisons": events})
}
