//! A serde client whose types are DATA: `Serialize` / `DeserializeSeed` implementations driven by a schema in the
//! schema language of spec/SerdeModel.tla.  TLC enumerates schemas (not only values of a hand-written family), the
//! harness serializes and deserializes them through quick-xml exactly as a `#[derive]`d type would:
//!   struct  -> serialize_struct / deserialize_struct with the field list ("@attr", "elem", "$text", "$value"),
//!              absent optional fields skipped, unknown keys ignored, absent Option / sequence / text fields defaulted
//!   enum    -> the variant calls (unit / newtype / struct; a `$text` variant is a newtype variant of that name)
//!   list, space-separated list -> seq;  Option -> none / some;  map -> map of strings
//! Values travel in the tagged JSON form of the specification ({"s":bytes} {"n":digits} {"b":0|1} {"f":text}
//! {"o":[[key,v]..]} {"a":[v..]} {"u":name} {"v":name,"x":v} {"z":0}), so a deserialized value is compared with the
//! generated one directly.

use std::collections::HashMap;
use std::fmt;
use std::sync::Mutex;

use serde::de::{self, DeserializeSeed, Deserializer, EnumAccess, IgnoredAny, MapAccess, SeqAccess, VariantAccess, Visitor};
use serde::ser::{self, Serialize, SerializeMap, SerializeSeq, SerializeStruct, SerializeStructVariant, SerializeTupleVariant, Serializer};
use serde_json::{json, Value};

#[derive(Debug, Clone)]
pub enum Ty {
    Str,
    /// a string handed to the serializer through `Serializer::collect_str` (as `Display` types are)
    StrDisplay,
    Num,
    Bool,
    Float,
    /// enum of unit variants
    Unit(Vec<String>),
    Opt(Box<Ty>),
    List(Box<Ty>),
    SList(Box<Ty>),
    Struct(Vec<Field>),
    Enum(Vec<Variant>),
    Map,
}
#[derive(Debug, Clone)]
pub struct Field {
    /// key as serde sees it: "@name", "name", "$text", "$value"
    pub jkey: String,
    pub ty: Ty,
}
#[derive(Debug, Clone)]
pub struct Variant {
    pub name: String,
    /// unit | newtype | struct | text
    pub kind: String,
    pub ty: Ty,
}

fn txt(v: &Value) -> String {
    String::from_utf8(v.as_array().map(|a| a.iter().map(|x| x.as_u64().unwrap() as u8).collect()).unwrap_or_default()).expect("utf8 in schema")
}
fn bytes_of(s: &str) -> Value {
    json!(s.as_bytes())
}

impl Ty {
    pub fn parse(v: &Value) -> Ty {
        match v["t"].as_str().expect("type tag") {
            "str" if v.get("disp").is_some() => Ty::StrDisplay,
            "str" => Ty::Str,
            "num" => Ty::Num,
            "bool" => Ty::Bool,
            "float" => Ty::Float,
            "unit" => {
                let mut names: Vec<String> = v["names"].as_array().unwrap().iter().map(txt).collect();
                names.sort();
                Ty::Unit(names)
            }
            "opt" => Ty::Opt(Box::new(Ty::parse(&v["of"]))),
            "list" => Ty::List(Box::new(Ty::parse(&v["of"]))),
            "slist" => Ty::SList(Box::new(Ty::parse(&v["of"]))),
            "struct" => Ty::Struct(
                v["fields"]
                    .as_array()
                    .unwrap()
                    .iter()
                    .map(|f| {
                        let key = txt(&f["key"]);
                        let jkey = if f["kind"] == "attr" { format!("@{key}") } else { key };
                        Field { jkey, ty: Ty::parse(&f["ty"]) }
                    })
                    .collect(),
            ),
            "enum" => Ty::Enum(
                v["variants"].as_array().unwrap().iter().map(|x| Variant { name: txt(&x["name"]), kind: x["kind"].as_str().unwrap().to_string(), ty: Ty::parse(&x["ty"]) }).collect(),
            ),
            "map" => Ty::Map,
            t => panic!("unknown type tag {t}"),
        }
    }
}

/// serde wants `&'static str` names: interned once per distinct string / list
fn intern(s: &str) -> &'static str {
    static TABLE: Mutex<Option<HashMap<String, &'static str>>> = Mutex::new(None);
    let mut g = TABLE.lock().unwrap();
    let t = g.get_or_insert_with(HashMap::new);
    if let Some(x) = t.get(s) {
        return x;
    }
    let l: &'static str = Box::leak(s.to_string().into_boxed_str());
    t.insert(s.to_string(), l);
    l
}
fn intern_list(names: &[String]) -> &'static [&'static str] {
    static TABLE: Mutex<Option<HashMap<String, &'static [&'static str]>>> = Mutex::new(None);
    let key = names.join("\u{1}");
    let mut g = TABLE.lock().unwrap();
    let t = g.get_or_insert_with(HashMap::new);
    if let Some(x) = t.get(&key) {
        return x;
    }
    let v: Vec<&'static str> = names.iter().map(|n| intern(n)).collect();
    let l: &'static [&'static str] = Box::leak(v.into_boxed_slice());
    t.insert(key, l);
    l
}

// ---------------------------------------------------------------- Serialize
pub struct Dyn<'a>(pub &'a Ty, pub &'a Value);

fn is_none(v: &Value) -> bool {
    v.get("z").is_some()
}

impl<'a> Serialize for Dyn<'a> {
    fn serialize<S: Serializer>(&self, s: S) -> Result<S::Ok, S::Error> {
        let (ty, v) = (self.0, self.1);
        match ty {
            Ty::Str => s.serialize_str(&txt(&v["s"])),
            Ty::StrDisplay => s.collect_str(&txt(&v["s"])),
            Ty::Num => {
                let t = txt(&v["n"]);
                if t.starts_with('-') {
                    s.serialize_i64(t.parse().map_err(|_| ser::Error::custom("bad number in schema value"))?)
                } else {
                    s.serialize_u64(t.parse().map_err(|_| ser::Error::custom("bad number in schema value"))?)
                }
            }
            Ty::Bool => s.serialize_bool(v["b"].as_u64() == Some(1)),
            Ty::Float => s.serialize_f64(txt(&v["f"]).parse().map_err(|_| ser::Error::custom("bad float in schema value"))?),
            Ty::Unit(names) => {
                let n = txt(&v["u"]);
                let idx = names.iter().position(|x| *x == n).unwrap_or(0) as u32;
                s.serialize_unit_variant("E", idx, intern(&n))
            }
            Ty::Opt(of) => {
                if is_none(v) {
                    s.serialize_none()
                } else {
                    s.serialize_some(&Dyn(of, v))
                }
            }
            Ty::List(of) | Ty::SList(of) => {
                let items = v["a"].as_array().expect("sequence value");
                let mut seq = s.serialize_seq(Some(items.len()))?;
                for it in items {
                    seq.serialize_element(&Dyn(of, it))?;
                }
                seq.end()
            }
            Ty::Struct(fields) => {
                let pairs = v["o"].as_array().expect("struct value");
                let mut st = s.serialize_struct("S", fields.len())?;
                for (i, f) in fields.iter().enumerate() {
                    let fv = &pairs[i][1];
                    let key = intern(&f.jkey);
                    if matches!(f.ty, Ty::Opt(_)) && is_none(fv) {
                        st.skip_field(key)?; // #[serde(skip_serializing_if = "Option::is_none")]
                    } else {
                        st.serialize_field(key, &Dyn(&f.ty, fv))?;
                    }
                }
                st.end()
            }
            Ty::Enum(variants) => {
                if let Some(u) = v.get("u") {
                    let n = txt(u);
                    let idx = variants.iter().position(|x| x.name == n).unwrap_or(0) as u32;
                    return s.serialize_unit_variant("E", idx, intern(&n));
                }
                let n = txt(&v["v"]);
                let idx = variants.iter().position(|x| x.name == n).expect("variant of the schema");
                let var = &variants[idx];
                match (var.kind.as_str(), &var.ty) {
                    ("struct", Ty::Struct(fields)) => {
                        let pairs = v["x"]["o"].as_array().expect("struct variant value");
                        let mut st = s.serialize_struct_variant("E", idx as u32, intern(&n), fields.len())?;
                        for (i, f) in fields.iter().enumerate() {
                            let fv = &pairs[i][1];
                            let key = intern(&f.jkey);
                            if matches!(f.ty, Ty::Opt(_)) && is_none(fv) {
                                st.skip_field(key)?;
                            } else {
                                st.serialize_field(key, &Dyn(&f.ty, fv))?;
                            }
                        }
                        st.end()
                    }
                    ("ttext", Ty::SList(of)) | ("ttext", Ty::List(of)) => {
                        // a tuple variant (renamed `$text`): its fields are the items of a space-separated list
                        let items = v["x"]["a"].as_array().expect("tuple variant value");
                        let mut tv = s.serialize_tuple_variant("E", idx as u32, intern(&n), items.len())?;
                        for it in items {
                            tv.serialize_field(&Dyn(of, it))?;
                        }
                        tv.end()
                    }
                    _ => s.serialize_newtype_variant("E", idx as u32, intern(&n), &Dyn(&var.ty, &v["x"])),
                }
            }
            Ty::Map => {
                let pairs = v["o"].as_array().expect("map value");
                let mut m = s.serialize_map(Some(pairs.len()))?;
                for p in pairs {
                    m.serialize_entry(&txt(&p[0]), &txt(&p[1]["s"]))?;
                }
                m.end()
            }
        }
    }
}

// ---------------------------------------------------------------- Deserialize
#[derive(Clone, Copy)]
pub struct Seed<'a>(pub &'a Ty);

struct StrV;
impl<'de> Visitor<'de> for StrV {
    type Value = String;
    fn expecting(&self, f: &mut fmt::Formatter) -> fmt::Result {
        f.write_str("a string")
    }
    fn visit_str<E: de::Error>(self, v: &str) -> Result<String, E> {
        Ok(v.to_string())
    }
    fn visit_string<E: de::Error>(self, v: String) -> Result<String, E> {
        Ok(v)
    }
    fn visit_bytes<E: de::Error>(self, v: &[u8]) -> Result<String, E> {
        String::from_utf8(v.to_vec()).map_err(|_| E::custom("not UTF-8"))
    }
}
/// field / variant identifier, as `#[derive(Deserialize)]` reads it
struct Ident;
impl<'de> DeserializeSeed<'de> for Ident {
    type Value = String;
    fn deserialize<D: Deserializer<'de>>(self, d: D) -> Result<String, D::Error> {
        d.deserialize_identifier(StrV)
    }
}

struct V<'a>(&'a Ty);

impl<'de, 'a> DeserializeSeed<'de> for Seed<'a> {
    type Value = Value;
    fn deserialize<D: Deserializer<'de>>(self, d: D) -> Result<Value, D::Error> {
        match self.0 {
            Ty::Str | Ty::StrDisplay => d.deserialize_string(StrV).map(|s| json!({"s": s.as_bytes()})),
            Ty::Num => d.deserialize_u64(V(self.0)),
            Ty::Bool => d.deserialize_bool(V(self.0)),
            Ty::Float => d.deserialize_f64(V(self.0)),
            Ty::Unit(names) => d.deserialize_enum("E", intern_list(names), V(self.0)),
            Ty::Opt(_) => d.deserialize_option(V(self.0)),
            Ty::List(_) | Ty::SList(_) => d.deserialize_seq(V(self.0)),
            Ty::Struct(fields) => {
                let names: Vec<String> = fields.iter().map(|f| f.jkey.clone()).collect();
                d.deserialize_struct("S", intern_list(&names), V(self.0))
            }
            Ty::Enum(variants) => {
                let names: Vec<String> = variants.iter().map(|v| v.name.clone()).collect();
                d.deserialize_enum("E", intern_list(&names), V(self.0))
            }
            Ty::Map => d.deserialize_map(V(self.0)),
        }
    }
}

/// what `#[serde(default)]` gives for a field that did not occur (Option, sequences and text content carry it in the family)
fn default_of(ty: &Ty, jkey: &str) -> Option<Value> {
    match ty {
        Ty::Opt(_) => Some(json!({"z": 0})),
        Ty::List(_) | Ty::SList(_) => Some(json!({"a": []})),
        Ty::Str | Ty::StrDisplay if jkey == "$text" => Some(json!({"s": []})),
        _ => None,
    }
}

fn struct_from_map<'de, A: MapAccess<'de>>(fields: &[Field], mut map: A) -> Result<Value, A::Error> {
    let mut got: Vec<Option<Value>> = vec![None; fields.len()];
    while let Some(key) = map.next_key_seed(Ident)? {
        match fields.iter().position(|f| f.jkey == key) {
            Some(i) => {
                if got[i].is_some() {
                    return Err(de::Error::custom(format!("duplicate field `{key}`")));
                }
                got[i] = Some(map.next_value_seed(Seed(&fields[i].ty))?);
            }
            None => {
                map.next_value::<IgnoredAny>()?;
            }
        }
    }
    let mut pairs = Vec::new();
    for (i, f) in fields.iter().enumerate() {
        let v = match got[i].take() {
            Some(v) => v,
            None => default_of(&f.ty, &f.jkey).ok_or_else(|| de::Error::custom(format!("missing field `{}`", f.jkey)))?,
        };
        pairs.push(json!([f.jkey.as_bytes(), v]));
    }
    Ok(json!({"o": pairs}))
}

impl<'de, 'a> Visitor<'de> for V<'a> {
    type Value = Value;
    fn expecting(&self, f: &mut fmt::Formatter) -> fmt::Result {
        write!(f, "a value of the schema type {:?}", self.0)
    }
    fn visit_u64<E: de::Error>(self, v: u64) -> Result<Value, E> {
        Ok(json!({"n": v.to_string().as_bytes()}))
    }
    fn visit_i64<E: de::Error>(self, v: i64) -> Result<Value, E> {
        Ok(json!({"n": v.to_string().as_bytes()}))
    }
    fn visit_bool<E: de::Error>(self, v: bool) -> Result<Value, E> {
        Ok(json!({"b": if v { 1 } else { 0 }}))
    }
    fn visit_f64<E: de::Error>(self, v: f64) -> Result<Value, E> {
        Ok(json!({"f": v.to_string().as_bytes()}))
    }
    fn visit_none<E: de::Error>(self) -> Result<Value, E> {
        Ok(json!({"z": 0}))
    }
    fn visit_unit<E: de::Error>(self) -> Result<Value, E> {
        Ok(json!({"z": 0}))
    }
    fn visit_some<D: Deserializer<'de>>(self, d: D) -> Result<Value, D::Error> {
        match self.0 {
            Ty::Opt(of) => Seed(of).deserialize(d),
            _ => Err(de::Error::custom("some for a non-option")),
        }
    }
    fn visit_seq<A: SeqAccess<'de>>(self, mut seq: A) -> Result<Value, A::Error> {
        let of = match self.0 {
            Ty::List(of) | Ty::SList(of) => of,
            _ => return Err(de::Error::custom("sequence for a non-sequence")),
        };
        let mut items = Vec::new();
        while let Some(x) = seq.next_element_seed(Seed(of))? {
            items.push(x);
        }
        Ok(json!({"a": items}))
    }
    fn visit_map<A: MapAccess<'de>>(self, mut map: A) -> Result<Value, A::Error> {
        match self.0 {
            Ty::Struct(fields) => struct_from_map(fields, map),
            Ty::Map => {
                let mut pairs = Vec::new();
                while let Some(k) = map.next_key_seed(Ident)? {
                    let v: String = map.next_value_seed(StrSeed)?;
                    pairs.push(json!([k.as_bytes(), {"s": v.as_bytes()}]));
                }
                Ok(json!({"o": pairs}))
            }
            _ => Err(de::Error::custom("map for a non-struct")),
        }
    }
    fn visit_enum<A: EnumAccess<'de>>(self, data: A) -> Result<Value, A::Error> {
        let (name, access) = data.variant_seed(Ident)?;
        match self.0 {
            Ty::Unit(names) => {
                if !names.contains(&name) {
                    return Err(de::Error::unknown_variant(&name, intern_list(names)));
                }
                access.unit_variant()?;
                Ok(json!({"u": name.as_bytes()}))
            }
            Ty::Enum(variants) => {
                let var = variants.iter().find(|v| v.name == name).ok_or_else(|| de::Error::custom(format!("unknown variant `{name}`")))?;
                match (var.kind.as_str(), &var.ty) {
                    ("unit", _) => {
                        access.unit_variant()?;
                        Ok(json!({"u": name.as_bytes()}))
                    }
                    ("struct", Ty::Struct(fields)) => {
                        let names: Vec<String> = fields.iter().map(|f| f.jkey.clone()).collect();
                        let x = access.struct_variant(intern_list(&names), V(&var.ty))?;
                        Ok(json!({"v": name.as_bytes(), "x": x}))
                    }
                    ("ttext", _) => {
                        let x = access.tuple_variant(2, V(&var.ty))?;
                        Ok(json!({"v": name.as_bytes(), "x": x}))
                    }
                    _ => {
                        let x = access.newtype_variant_seed(Seed(&var.ty))?;
                        Ok(json!({"v": name.as_bytes(), "x": x}))
                    }
                }
            }
            _ => Err(de::Error::custom("enum for a non-enum")),
        }
    }
}

struct StrSeed;
impl<'de> DeserializeSeed<'de> for StrSeed {
    type Value = String;
    fn deserialize<D: Deserializer<'de>>(self, d: D) -> Result<String, D::Error> {
        d.deserialize_string(StrV)
    }
}

// ---------------------------------------------------------------- entry points
pub struct SerOpts {
    pub quote: u8,
    pub indent: Option<(char, usize)>,
    pub expand_empty: bool,
}

pub fn ser(ty: &Ty, v: &Value, root: &str, o: &SerOpts) -> Result<String, String> {
    use quick_xml::se::{QuoteLevel, Serializer};
    let mut out = String::new();
    let mut s = Serializer::with_root(&mut out, Some(root)).map_err(|e| format!("se: {e}"))?;
    s.set_quote_level(match o.quote {
        0 => QuoteLevel::Full,
        1 => QuoteLevel::Partial,
        _ => QuoteLevel::Minimal,
    });
    if let Some((c, n)) = o.indent {
        s.indent(c, n);
    }
    s.expand_empty_elements(o.expand_empty);
    Dyn(ty, v).serialize(s).map_err(|e| format!("se: {e}"))?;
    Ok(out)
}

/// The same without an explicit root tag: the name of the struct type becomes the root element (as for a derived type
/// serialized with `to_string`); `name` is whatever the container is called.
pub fn ser_named(ty: &Ty, v: &Value, name: &str) -> Result<String, String> {
    struct Named<'a>(&'a Ty, &'a Value, &'static str);
    impl<'a> Serialize for Named<'a> {
        fn serialize<S: Serializer>(&self, s: S) -> Result<S::Ok, S::Error> {
            let Ty::Struct(fields) = self.0 else { return Err(ser::Error::custom("not a struct")) };
            let pairs = self.1["o"].as_array().expect("struct value");
            let mut st = s.serialize_struct(self.2, fields.len())?;
            for (i, f) in fields.iter().enumerate() {
                st.serialize_field(intern(&f.jkey), &Dyn(&f.ty, &pairs[i][1]))?;
            }
            st.end()
        }
    }
    let mut out = String::new();
    let s = quick_xml::se::Serializer::new(&mut out);
    Named(ty, v, intern(name)).serialize(s).map_err(|e| format!("se: {e}"))?;
    Ok(out)
}

pub fn de_str(ty: &Ty, xml: &str) -> Result<Value, String> {
    let mut d = quick_xml::de::Deserializer::from_str(xml);
    Seed(ty).deserialize(&mut d).map_err(|e| format!("{e:?}"))
}

pub fn de_reader(ty: &Ty, xml: &[u8], cuts: &[usize]) -> Result<Value, String> {
    let src = crate::env::Chunked::new(xml, crate::env::Plan { cuts: cuts.to_vec(), ..Default::default() });
    let mut d = quick_xml::de::Deserializer::from_reader(src);
    Seed(ty).deserialize(&mut d).map_err(|e| format!("{e:?}"))
}

/// tagged values are compared modulo the spelling of empty struct keys order (both sides are in schema order)
pub fn same(a: &Value, b: &Value) -> bool {
    a == b
}
