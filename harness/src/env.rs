//! Environment side of the conformance harness: `BufRead` / `AsyncBufRead`
//! sources that deliver a byte string in prescribed pieces, inject I/O faults
//! at prescribed refill calls and (async) return `Poll::Pending` a prescribed
//! number of times before each piece.  Every environment step is logged, so a
//! trace pins down the nondeterminism the specification leaves to the
//! environment (Source.tla: Refill / Interrupted / IoError / Pending).

use std::cell::RefCell;
use std::io::{self, BufRead, Read};
use std::pin::Pin;
use std::rc::Rc;
use std::task::{Context, Poll};

use serde::Serialize;

#[derive(Clone, Debug, Serialize, PartialEq)]
#[serde(tag = "t")]
pub enum EnvEv {
    /// a refill delivered `n` fresh bytes (0 = end of input)
    Fill { n: usize },
    /// `consume(n)`
    Consume { n: usize },
    /// a refill call answered `ErrorKind::Interrupted`
    Interrupted,
    /// a refill call answered another I/O error
    IoError,
    /// async only: `Poll::Pending`
    Pending,
    /// a `fill_buf` call that returned the piece ending at absolute offset `hi`
    Fb { hi: usize },
}

/// What happens at the `idx`-th refill call (0-based; a refill call is a
/// `fill_buf` that finds the current piece fully consumed).
#[derive(Clone, Debug, Default)]
pub struct Plan {
    /// piece sizes; when exhausted the rest is delivered in one piece
    pub cuts: Vec<usize>,
    /// (refill index, number of Interrupted answers before the refill proceeds)
    pub interrupts: Vec<(usize, usize)>,
    /// refill index answered with a non-interrupt error (once)
    pub error_at: Option<usize>,
    /// which non-interrupt error (index into ERROR_KINDS)
    pub error_kind: usize,
    /// async: number of Pending answers before refill i (cyclic)
    pub pendings: Vec<usize>,
}

/// the non-interrupt errors a source may answer with: none of them means "end of input" or "try again" to the reader
pub const ERROR_KINDS: [io::ErrorKind; 7] = [
    io::ErrorKind::Other,
    io::ErrorKind::UnexpectedEof,
    io::ErrorKind::TimedOut,
    io::ErrorKind::WouldBlock,
    io::ErrorKind::BrokenPipe,
    io::ErrorKind::InvalidData,
    io::ErrorKind::ConnectionReset,
];

/// Does the input START WITH a byte-order mark or a UTF-16 signature?  Only then may the sniff of the first piece make the
/// result depend on how the input is cut (C02: "first piece >= 4 bytes when the input starts with a BOM or a UTF-16
/// signature"); an input that merely begins with the first byte(s) of a mark is an ordinary input.
pub fn starts_with_signature(input: &[u8]) -> bool {
    input.starts_with(&[0xEF, 0xBB, 0xBF])
        || input.starts_with(&[0xFE, 0xFF])
        || input.starts_with(&[0xFF, 0xFE])
        || input.starts_with(&[0x00, 0x3C, 0x00, 0x3F])
        || input.starts_with(&[0x3C, 0x00, 0x3F, 0x00])
}

pub type Log = Rc<RefCell<Vec<EnvEv>>>;

pub struct Chunked {
    data: Vec<u8>,
    /// start of the current piece's unconsumed part
    pos: usize,
    /// end of the current piece
    end: usize,
    plan: Plan,
    cut_idx: usize,
    refill_idx: usize,
    intr_left: Option<usize>,
    pend_left: Option<usize>,
    error_done: bool,
    pub log: Log,
    /// bytes handed out so far (= `end`); exposed for the fault rule
    pub delivered: Rc<RefCell<usize>>,
}

impl Chunked {
    pub fn new(data: &[u8], plan: Plan) -> Self {
        Self {
            data: data.to_vec(),
            pos: 0,
            end: 0,
            plan,
            cut_idx: 0,
            refill_idx: 0,
            intr_left: None,
            pend_left: None,
            error_done: false,
            log: Rc::new(RefCell::new(Vec::new())),
            delivered: Rc::new(RefCell::new(0)),
        }
    }

    /// One refill attempt. Ok(true) = piece ready, Ok(false) = pending (async)
    fn refill(&mut self, allow_pending: bool) -> io::Result<bool> {
        debug_assert!(self.pos == self.end);
        if allow_pending && !self.plan.pendings.is_empty() {
            let want = self.plan.pendings[self.refill_idx % self.plan.pendings.len()];
            let left = self.pend_left.get_or_insert(want);
            if *left > 0 {
                *left -= 1;
                self.log.borrow_mut().push(EnvEv::Pending);
                return Ok(false);
            }
        }
        let want = self
            .plan
            .interrupts
            .iter()
            .find(|(i, _)| *i == self.refill_idx)
            .map(|(_, k)| *k)
            .unwrap_or(0);
        let left = self.intr_left.get_or_insert(want);
        if *left > 0 {
            *left -= 1;
            self.log.borrow_mut().push(EnvEv::Interrupted);
            return Err(io::Error::new(io::ErrorKind::Interrupted, "verif: interrupted"));
        }
        if self.plan.error_at == Some(self.refill_idx) && !self.error_done {
            self.error_done = true;
            self.log.borrow_mut().push(EnvEv::IoError);
            return Err(io::Error::new(ERROR_KINDS[self.plan.error_kind % ERROR_KINDS.len()], "verif: injected fault"));
        }
        let rest = self.data.len() - self.end;
        let n = if self.cut_idx < self.plan.cuts.len() {
            let c = self.plan.cuts[self.cut_idx].max(1).min(rest);
            self.cut_idx += 1;
            c
        } else {
            rest
        };
        self.end += n;
        *self.delivered.borrow_mut() = self.end;
        self.refill_idx += 1;
        self.intr_left = None;
        self.pend_left = None;
        self.log.borrow_mut().push(EnvEv::Fill { n });
        Ok(true)
    }
}

impl Read for Chunked {
    fn read(&mut self, buf: &mut [u8]) -> io::Result<usize> {
        let avail = self.fill_buf()?;
        let n = avail.len().min(buf.len());
        buf[..n].copy_from_slice(&avail[..n]);
        self.consume(n);
        Ok(n)
    }
}

impl BufRead for Chunked {
    fn fill_buf(&mut self) -> io::Result<&[u8]> {
        if self.pos == self.end {
            self.refill(false)?;
        }
        self.log.borrow_mut().push(EnvEv::Fb { hi: self.end });
        Ok(&self.data[self.pos..self.end])
    }
    fn consume(&mut self, amt: usize) {
        assert!(self.pos + amt <= self.end, "consume beyond the filled piece");
        self.pos += amt;
        self.log.borrow_mut().push(EnvEv::Consume { n: amt });
    }
}

impl tokio::io::AsyncRead for Chunked {
    fn poll_read(
        self: Pin<&mut Self>,
        cx: &mut Context<'_>,
        buf: &mut tokio::io::ReadBuf<'_>,
    ) -> Poll<io::Result<()>> {
        let this = self.get_mut();
        if this.pos == this.end {
            match this.refill(true) {
                Ok(true) => {}
                Ok(false) => {
                    cx.waker().wake_by_ref();
                    return Poll::Pending;
                }
                Err(e) => return Poll::Ready(Err(e)),
            }
        }
        let n = (this.end - this.pos).min(buf.remaining());
        buf.put_slice(&this.data[this.pos..this.pos + n]);
        this.pos += n;
        Poll::Ready(Ok(()))
    }
}

impl tokio::io::AsyncBufRead for Chunked {
    fn poll_fill_buf(self: Pin<&mut Self>, cx: &mut Context<'_>) -> Poll<io::Result<&[u8]>> {
        let this = self.get_mut();
        if this.pos == this.end {
            match this.refill(true) {
                Ok(true) => {}
                Ok(false) => {
                    cx.waker().wake_by_ref();
                    return Poll::Pending;
                }
                Err(e) => return Poll::Ready(Err(e)),
            }
        }
        this.log.borrow_mut().push(EnvEv::Fb { hi: this.end });
        Poll::Ready(Ok(&this.data[this.pos..this.end]))
    }
    fn consume(self: Pin<&mut Self>, amt: usize) {
        let this = self.get_mut();
        assert!(this.pos + amt <= this.end, "consume beyond the filled piece");
        this.pos += amt;
        this.log.borrow_mut().push(EnvEv::Consume { n: amt });
    }
}

/// All compositions of `n` (ways of cutting n bytes into consecutive non-empty
/// pieces), as piece-size lists. 2^(n-1) of them.
pub fn all_cuts(n: usize) -> Vec<Vec<usize>> {
    if n == 0 {
        return vec![vec![]];
    }
    let mut out = Vec::new();
    for mask in 0u32..(1u32 << (n - 1)) {
        let mut cuts = Vec::new();
        let mut run = 1;
        for i in 0..n - 1 {
            if mask & (1 << i) != 0 {
                cuts.push(run);
                run = 1;
            } else {
                run += 1;
            }
        }
        cuts.push(run);
        out.push(cuts);
    }
    out
}

/// Minimal single-threaded executor: polls the future until ready.  The
/// sources above wake themselves before returning Pending.
pub fn block_on<F: std::future::Future>(fut: F) -> F::Output {
    use std::task::{RawWaker, RawWakerVTable, Waker};
    fn noop(_: *const ()) {}
    fn clone(_: *const ()) -> RawWaker {
        RawWaker::new(std::ptr::null(), &VTABLE)
    }
    static VTABLE: RawWakerVTable = RawWakerVTable::new(clone, noop, noop, noop);
    let waker = unsafe { Waker::from_raw(RawWaker::new(std::ptr::null(), &VTABLE)) };
    let mut cx = Context::from_waker(&waker);
    let mut fut = Box::pin(fut);
    loop {
        if let Poll::Ready(v) = fut.as_mut().poll(&mut cx) {
            return v;
        }
    }
}

/// Environment side of the writers: a sink that accepts at most `max` bytes per `write` / `poll_write` call
/// (short writes are legal for `io::Write` and `AsyncWrite`; `write_all` has to loop) and, as an `AsyncWrite`,
/// answers `Pending` before every other call.  `calls` logs (offered, accepted) per call.
pub struct ShortSink {
    pub out: Vec<u8>,
    pub max: usize,
    pub calls: Vec<(usize, usize)>,
    pend_next: bool,
}

impl ShortSink {
    pub fn new(max: usize) -> Self {
        Self { out: Vec::new(), max: max.max(1), calls: Vec::new(), pend_next: true }
    }
}

impl io::Write for ShortSink {
    fn write(&mut self, buf: &[u8]) -> io::Result<usize> {
        let k = buf.len().min(self.max);
        self.out.extend_from_slice(&buf[..k]);
        self.calls.push((buf.len(), k));
        Ok(k)
    }
    fn flush(&mut self) -> io::Result<()> {
        Ok(())
    }
}

impl tokio::io::AsyncWrite for ShortSink {
    fn poll_write(self: Pin<&mut Self>, cx: &mut Context<'_>, buf: &[u8]) -> Poll<io::Result<usize>> {
        let this = self.get_mut();
        if this.pend_next {
            this.pend_next = false;
            cx.waker().wake_by_ref();
            return Poll::Pending;
        }
        this.pend_next = true;
        let k = buf.len().min(this.max);
        this.out.extend_from_slice(&buf[..k]);
        this.calls.push((buf.len(), k));
        Poll::Ready(Ok(k))
    }
    fn poll_flush(self: Pin<&mut Self>, _cx: &mut Context<'_>) -> Poll<io::Result<()>> {
        Poll::Ready(Ok(()))
    }
    fn poll_shutdown(self: Pin<&mut Self>, _cx: &mut Context<'_>) -> Poll<io::Result<()>> {
        Poll::Ready(Ok(()))
    }
}
