//! C09 / C19: event constructors, Writer, indentation.
//! Descriptors and event rows are the vocabulary of spec/MC_Writer.tla.

use std::io::{BufRead, Write};
use std::panic::{catch_unwind, AssertUnwindSafe};

use quick_xml::events::attributes::Attribute;
use quick_xml::events::{BytesCData, BytesDecl, BytesEnd, BytesPI, BytesStart, BytesText, Event};
use quick_xml::reader::Reader;
use quick_xml::Writer;
use rand::rngs::StdRng;
use rand::{Rng, SeedableRng};
use serde_json::{json, Value};

use crate::env::block_on;

fn bytes(v: &Value) -> Vec<u8> {
    v.as_array().map(|a| a.iter().map(|x| x.as_u64().unwrap() as u8).collect()).unwrap_or_default()
}
fn s(v: &Value) -> String {
    String::from_utf8(bytes(v)).expect("utf8 payload")
}

/// event row [k, b] -> Event writing exactly these bytes
fn event_of_row(k: &str, b: &[u8]) -> Event<'static> {
    let st = String::from_utf8(b.to_vec()).expect("utf8");
    match k {
        "Start" | "Empty" => {
            let n = st.bytes().position(|c| matches!(c, b' ' | b'\t' | b'\r' | b'\n')).unwrap_or(st.len());
            let e = BytesStart::from_content(st, n);
            if k == "Start" { Event::Start(e) } else { Event::Empty(e) }
        }
        "End" => Event::End(BytesEnd::new(st)),
        "Text" => Event::Text(BytesText::from_escaped(st)),
        "CData" => Event::CData(BytesCData::new(st)),
        "Comment" => Event::Comment(BytesText::from_escaped(st)),
        "Decl" => Event::Decl(BytesDecl::from_start(BytesStart::from_content(st, 3))),
        "PI" => Event::PI(BytesPI::new(st)),
        "DocType" => Event::DocType(BytesText::from_escaped(st)),
        _ => Event::Eof,
    }
}

/// Write the events with the synchronous writer.  The sink is part of the environment: the same events are written into
/// a `Vec` and into sinks that accept only a few bytes per `write` call; the bytes that arrive must not depend on that
/// (if they do, the differing output is returned so that every comparison downstream fails).
fn write_sync(evs: &[Event<'static>], indent: Option<(u8, usize)>) -> Vec<u8> {
    fn run<W: std::io::Write>(sink: W, evs: &[Event<'static>], indent: Option<(u8, usize)>) -> W {
        let mut w = match indent {
            None => Writer::new(sink),
            Some((c, n)) => Writer::new_with_indent(sink, c, n),
        };
        for e in evs {
            w.write_event(e.borrow()).unwrap();
        }
        w.into_inner()
    }
    let whole = run(Vec::new(), evs, indent);
    for max in [1usize, 3] {
        let short = run(crate::env::ShortSink::new(max), evs, indent).out;
        if short != whole {
            return short;
        }
    }
    whole
}
fn write_async(evs: &[Event<'static>], indent: Option<(u8, usize)>) -> Vec<u8> {
    fn run<W: tokio::io::AsyncWrite + Unpin>(sink: W, evs: &[Event<'static>], indent: Option<(u8, usize)>) -> W {
        let mut w = match indent {
            None => Writer::new(sink),
            Some((c, n)) => Writer::new_with_indent(sink, c, n),
        };
        for e in evs {
            block_on(w.write_event_async(e.borrow())).unwrap();
        }
        w.into_inner()
    }
    let whole = run(Vec::new(), evs, indent);
    for max in [1usize, 5] {
        let short = run(crate::env::ShortSink::new(max), evs, indent).out;
        if short != whole {
            return short;
        }
    }
    whole
}

/// logical read-back: (kind, name-or-payload (unescaped for Text), attrs (k, unescaped v)); adjacent Text/CData coalesced, empty Text dropped
pub fn read_back(doc: &[u8]) -> Result<Vec<Value>, String> {
    let mut r = Reader::from_reader(doc);
    let c = r.config_mut();
    c.check_end_names = false;
    c.allow_unmatched_ends = true;
    c.trim_markup_names_in_closing_tags = false;
    let mut out: Vec<(String, Vec<u8>, Vec<(Vec<u8>, Vec<u8>)>)> = Vec::new();
    let dec = r.decoder();
    let attrs = |e: &BytesStart| -> Result<Vec<(Vec<u8>, Vec<u8>)>, String> {
        let mut v = Vec::new();
        let mut it = e.attributes();
        it.with_checks(false);
        for a in it {
            let a = a.map_err(|e| format!("attr {:?}", e))?;
            let val = a.decode_and_unescape_value(dec).map_err(|e| format!("unescape attr {:?}", e))?;
            v.push((a.key.as_ref().to_vec(), val.as_bytes().to_vec()));
        }
        Ok(v)
    };
    loop {
        let ev = r.read_event().map_err(|e| format!("read {:?}", e))?;
        let item = match &ev {
            Event::Eof => break,
            Event::Start(e) => ("Start".to_string(), e.name().as_ref().to_vec(), attrs(e)?),
            Event::Empty(e) => ("Empty".to_string(), e.name().as_ref().to_vec(), attrs(e)?),
            Event::End(e) => ("End".to_string(), e.name().as_ref().to_vec(), vec![]),
            Event::Text(e) => ("Text".to_string(), e.unescape().map_err(|e| format!("unescape text {:?}", e))?.as_bytes().to_vec(), vec![]),
            Event::CData(e) => ("CData".to_string(), e.to_vec(), vec![]),
            Event::Comment(e) => ("Comment".to_string(), e.to_vec(), vec![]),
            Event::PI(e) => ("PI".to_string(), e.to_vec(), vec![]),
            Event::DocType(e) => ("DocType".to_string(), e.to_vec(), vec![]),
            Event::Decl(e) => {
                let st = BytesStart::from_content(String::from_utf8_lossy(e).into_owned(), 3);
                ("Decl".to_string(), vec![], attrs(&st)?)
            }
        };
        if item.0 == "Text" && item.1.is_empty() {
            continue;
        }
        if let Some(last) = out.last_mut() {
            if (item.0 == "Text" || item.0 == "CData") && last.0 == item.0 {
                last.1.extend_from_slice(&item.1);
                continue;
            }
        }
        out.push(item);
    }
    Ok(out.into_iter().map(|(k, b, a)| json!([k, b, a.into_iter().map(|(x, y)| json!([x, y])).collect::<Vec<_>>()])).collect())
}

fn pairs(v: &Value) -> Vec<(String, String)> {
    v.as_array().map(|a| a.iter().map(|p| (s(&p[0]), s(&p[1]))).collect()).unwrap_or_default()
}

/// Execute construction descriptors with the real constructors; returns the events to write
/// the three conversions of a string pair into an `Attribute` (all documented to escape the value)
fn attr_of<'a>(k: &'a str, v: &'a str, form: u8) -> Attribute<'a> {
    match form % 3 {
        0 => Attribute::from((k, v)),
        1 => Attribute::from((k, std::borrow::Cow::Borrowed(v))),
        _ => Attribute::from((k, std::borrow::Cow::Owned(v.to_string()))),
    }
}

fn build(ops: &[Value], via_element_writer: &mut Vec<u8>) -> Vec<Event<'static>> {
    build_with(ops, via_element_writer, 0)
}

/// `form` selects which `From<..> for Attribute` conversion is used for every pushed pair
fn build_with(ops: &[Value], via_element_writer: &mut Vec<u8>, form: u8) -> Vec<Event<'static>> {
    let mut evs: Vec<Event<'static>> = Vec::new();
    let _ = via_element_writer;
    for d in ops {
        let a = d.as_array().unwrap();
        match a[0].as_str().unwrap() {
            k @ ("start" | "empty") => {
                let mut e = BytesStart::new(s(&a[1]));
                for (key, val) in pairs(&a[2]) {
                    e.push_attribute(attr_of(key.as_str(), val.as_str(), form));
                }
                // form 3: the in-place edits are applied to a tag whose buffer is BORROWED (as a tag handed out by a reader, or one
                // made with from_content / borrow() is), then detached again
                let content_copy: String = String::from_utf8(e.to_vec()).unwrap();
                let name_len = e.name().as_ref().len();
                let mut e = if form == 3 { BytesStart::from_content(content_copy.as_str(), name_len) } else { e };
                for ed in a[3].as_array().unwrap() {
                    let ed = ed.as_array().unwrap();
                    match ed[0].as_str().unwrap() {
                        "set_name" => {
                            e.set_name(&bytes(&ed[1]));
                        }
                        "clear" => {
                            e.clear_attributes();
                        }
                        "push" => e.push_attribute(attr_of(s(&ed[1]).as_str(), s(&ed[2]).as_str(), form)),
                        _ => {
                            let ps = pairs(&ed[1]);
                            e.extend_attributes(ps.iter().map(|(k, v)| attr_of(k.as_str(), v.as_str(), form)));
                        }
                    }
                }
                let e = e.into_owned();
                evs.push(if k == "start" { Event::Start(e) } else { Event::Empty(e) });
            }
            "end" => evs.push(Event::End(BytesEnd::new(s(&a[1])))),
            "text" => evs.push(Event::Text(BytesText::new(&s(&a[1])).into_owned())),
            "cdata" => {
                let content = s(&a[1]);
                for c in BytesCData::escaped(&content) {
                    evs.push(Event::CData(c.into_owned()));
                }
            }
            "comment" => evs.push(Event::Comment(BytesText::from_escaped(s(&a[1])))),
            "pi" => evs.push(Event::PI(BytesPI::new(s(&a[1])))),
            "decl" => {
                let enc = if a[2] == json!([0]) { None } else { Some(s(&a[2])) };
                let sa = if a[3] == json!([0]) { None } else { Some(s(&a[3])) };
                evs.push(Event::Decl(BytesDecl::new(&s(&a[1]), enc.as_deref(), sa.as_deref()).into_owned()));
            }
            "doctype" => evs.push(Event::DocType(BytesText::from_escaped(s(&a[1])))),
            // ElementWriter: written into a scratch writer, then re-read as raw events
            k @ ("elem_text" | "elem_empty" | "elem_cdata" | "elem_pi") => {
                let mut w = Writer::new(Vec::new());
                let name = s(&a[1]);
                let ps = pairs(&a[2]);
                let ew = w.create_element(name.as_str()).with_attributes(ps.iter().map(|(k, v)| attr_of(k.as_str(), v.as_str(), form)));
                match k {
                    "elem_text" => {
                        ew.write_text_content(BytesText::new(&s(&a[3]))).unwrap();
                    }
                    "elem_empty" => {
                        ew.write_empty().unwrap();
                    }
                    "elem_cdata" => {
                        // arbitrary content goes through the splitting constructor
                        let content = s(&a[3]);
                        ew.write_inner_content(|w| {
                            for c in BytesCData::escaped(&content) {
                                w.write_event(Event::CData(c))?;
                            }
                            Ok::<(), std::io::Error>(())
                        })
                        .unwrap();
                    }
                    _ => {
                        ew.write_pi_content(BytesPI::new(s(&a[3]))).unwrap();
                    }
                }
                evs.push(Event::Text(BytesText::from_escaped(String::from_utf8(w.into_inner()).unwrap())));
            }
            x => panic!("unknown descriptor {x}"),
        }
    }
    evs
}

pub fn replay(file: &str, prop: &str, out_dir: &str) -> Value {
    let f = std::io::BufReader::new(std::fs::File::open(file).expect("behaviour file"));
    let (mut n, mut runs, mut cmp, mut viol, mut nontriv, mut drift) = (0u64, 0u64, 0u64, 0u64, 0u64, 0u64);
    let mut files: Vec<String> = Vec::new();
    let mut samples = Vec::new();
    for line in f.lines() {
        let line = line.unwrap();
        if line.trim().is_empty() {
            continue;
        }
        let b: Value = serde_json::from_str(&line).expect("json");
        n += 1;
        let mut bad: Option<(String, Value)> = None;
        let res = catch_unwind(AssertUnwindSafe(|| {
            let mut bad: Option<(String, Value)> = None;
            let (mut runs, mut cmp, mut drift) = (0u64, 0u64, 0u64);
            if let Some(eops) = b.get("eops") {
                // ---- ElementWriter: operations + finishing call at depth d of a plain / indenting writer, sync and async
                let eops = eops.as_array().unwrap();
                for c in b["cases"].as_array().unwrap() {
                    let (name, fin, d) = (s(&c[0]), c[1].as_array().unwrap(), c[2].as_u64().unwrap() as usize);
                    let indent = if c[3].as_u64() == Some(1) { Some((c[4].as_u64().unwrap() as u8, c[5].as_u64().unwrap() as usize)) } else { None };
                    let want = bytes(&c[6]);
                    for is_async in [false, true] {
                        for max in [usize::MAX, 3] {
                            let got = elem_run(&name, eops, fin, d, indent, is_async, max);
                            runs += 1;
                            cmp += 1;
                            if got != want && elem_same_modulo_ws(&got, &want) {
                                // only the amount / kind of white space between attributes or before markup differs: tag I
                                drift += 1;
                            } else if got != want && bad.is_none() {
                                bad = Some(("element-writer-output".into(), json!({"name": name, "fin": fin, "depth": d, "indent": indent.map(|(c, n)| json!([c, n])),
                                    "async": is_async, "max_bytes_per_write": if max == usize::MAX { json!(null) } else { json!(max) },
                                    "expected": String::from_utf8_lossy(&want), "actual": String::from_utf8_lossy(&got)})));
                            }
                        }
                    }
                }
            } else if let Some(rows) = b.get("evs") {
                // ---- C19
                let evs: Vec<Event<'static>> = rows.as_array().unwrap().iter().map(|r| event_of_row(r[0].as_str().unwrap(), &bytes(&r[1]))).collect();
                let plain = write_sync(&evs, None);
                runs += 1;
                if plain != bytes(&b["plain"]) {
                    bad = Some(("plain-output".into(), json!({"actual": String::from_utf8_lossy(&plain)})));
                }
                let rb_plain = read_back(&plain);
                for o in b["outs"].as_array().unwrap() {
                    let (ch, size) = (o[0].as_u64().unwrap() as u8, o[1].as_u64().unwrap() as usize);
                    let got = write_sync(&evs, Some((ch, size)));
                    let got_async = write_async(&evs, Some((ch, size)));
                    runs += 2;
                    cmp += 3;
                    if got != bytes(&o[2]) {
                        // C19 fixes WHERE white space may be inserted, not how much: an output that differs from the machine's
                        // only in the amount of indentation is drift (tag I); anything else is a violation
                        let kinds: Vec<&str> = rows.as_array().unwrap().iter().map(|r| r[0].as_str().unwrap()).collect();
                        if indent_conforms(&evs, &kinds, &got, ch) {
                            drift += 1;
                        } else {
                            bad = bad.or(Some(("indented-output".into(), json!({"ch": ch, "size": size, "expected": String::from_utf8_lossy(&bytes(&o[2])), "actual": String::from_utf8_lossy(&got)}))));
                        }
                    }
                    if got_async != got {
                        bad = bad.or(Some(("async-differs-from-sync".into(), json!({"ch": ch, "size": size}))));
                    }
                    // read-back: whitespace-only text dropped => same events, payloads identical
                    let drop = |v: Result<Vec<Value>, String>| v.map(|l| l.into_iter().filter(|x| !(x[0] == "Text" && bytes(&x[1]).iter().all(|c| matches!(c, b' ' | b'\t' | b'\r' | b'\n')))).collect::<Vec<_>>());
                    if drop(read_back(&got)) != drop(rb_plain.clone()) {
                        bad = bad.or(Some(("read-back-differs".into(), json!({"ch": ch, "size": size}))));
                    }
                }
            } else {
                // ---- C09
                let ops = b["ops"].as_array().unwrap();
                let mut scratch = Vec::new();
                let evs = build(ops, &mut scratch);
                let out = write_sync(&evs, None);
                // the other conversions of a string pair into an attribute build the same bytes
                for form in [1u8, 2, 3] {
                    let alt = write_sync(&build_with(ops, &mut scratch, form), None);
                    cmp += 1;
                    if alt != out && read_back(&alt).is_ok() && read_back(&alt) == read_back(&out) {
                        drift += 1; // another spelling that reads back as the same events: tag I
                    } else if alt != out {
                        bad = bad.or(Some(("attribute-conversion-differs".into(), json!({"form": if form == 1 { "(&str, Cow::Borrowed)" } else if form == 2 { "(&str, Cow::Owned)" } else { "edits applied to a tag with a borrowed buffer" },
                            "with_str_pair": String::from_utf8_lossy(&out), "with_cow": String::from_utf8_lossy(&alt)}))));
                    }
                }
                let out_async = write_async(&evs, None);
                runs += 2;
                cmp += 3;
                if out != bytes(&b["plain"]) {
                    drift += 1;
                }
                if out_async != out {
                    bad = Some(("async-differs-from-sync".into(), json!({})));
                }
                // Writer::write_bom first: exactly the three bytes of the mark precede the same output, and the reader
                // (which removes the mark) gives the same events
                {
                    let mut w = Writer::new(Vec::new());
                    w.write_bom().unwrap();
                    for e in &evs {
                        w.write_event(e.borrow()).unwrap();
                    }
                    let with_bom = w.into_inner();
                    cmp += 1;
                    if with_bom.get(..3) != Some(&[0xEF, 0xBB, 0xBF][..]) || with_bom[3..] != out[..] || read_back(&with_bom) != read_back(&out) {
                        bad = bad.or(Some(("write_bom".into(), json!({"written": String::from_utf8_lossy(&with_bom)}))));
                    }
                }
                match read_back(&out) {
                    Ok(l) => {
                        if Value::Array(l.clone()) != b["logical"] {
                            bad = bad.or(Some(("read-back-events".into(), json!({"written": String::from_utf8_lossy(&out), "read_back": l}))));
                        }
                    }
                    Err(e) => bad = bad.or(Some(("read-back-error".into(), json!({"written": String::from_utf8_lossy(&out), "error": e})))),
                }
            }
            (bad, runs, cmp, drift)
        }));
        match res {
            Ok((bd, r, c, d)) => {
                bad = bd;
                runs += r;
                cmp += c;
                drift += d;
            }
            Err(_) => bad = Some(("panic".into(), json!({}))),
        }
        let len = b.get("evs").or(b.get("ops")).or(b.get("eops")).and_then(|x| x.as_array()).map(|a| a.len()).unwrap_or(0);
        if len >= 2 {
            nontriv += 1;
        }
        if samples.len() < 3 && len >= 2 && n % 401 == 0 {
            samples.push(json!({"case": b.get("evs").or(b.get("ops")), "plain": String::from_utf8_lossy(&bytes(&b["plain"]))}));
        }
        if let Some((what, detail)) = bad {
            viol += 1;
            if files.len() < 5 {
                let path = format!("{}/{}-{}.json", out_dir, prop, files.len());
                std::fs::create_dir_all(out_dir).ok();
                std::fs::write(&path, serde_json::to_string_pretty(&json!({"property": prop, "kind": "writer-replay", "what": what, "detail": detail, "behaviour": b})).unwrap()).ok();
                println!("VIOLATION property={} replay={}", prop, path);
                files.push(path);
            }
        }
    }
    let mut d = serde_json::Map::new();
    if drift > 0 {
        d.insert("writer-output-bytes".into(), json!(drift));
    }
    json!({"behaviours": n, "runs": runs, "comparisons": cmp, "nontrivial": nontriv, "violations": viol, "samples": samples, "drift": d})
}

/// Two outputs of the element-builder legs are the same up to white space outside content: both read back (real reader,
/// attributes parsed and unescaped, whitespace-only text dropped) as the same logical events.
fn elem_same_modulo_ws(a: &[u8], b: &[u8]) -> bool {
    let drop = |v: Result<Vec<Value>, String>| v.map(|l| l.into_iter().filter(|x| !(x[0] == "Text" && bytes(&x[1]).iter().all(|c| matches!(c, b' ' | b'\t' | b'\r' | b'\n')))).collect::<Vec<_>>());
    let strip = |x: &[u8]| -> Vec<u8> { x.iter().cloned().filter(|c| !matches!(c, b' ' | b'\t' | b'\r' | b'\n')).collect() };
    match (drop(read_back(a)), drop(read_back(b))) {
        (Ok(x), Ok(y)) => x == y && strip(a) == strip(b),
        _ => false,
    }
}

/// C19, literally (Writer!IndentConforms): `out` is the plain rendering of the events with, possibly, a line break followed
/// by a run of the indent character inserted immediately before markup that is not the first event and does not follow
/// Text or CData - and nothing else.
fn indent_conforms(evs: &[Event<'static>], kinds: &[&str], out: &[u8], ch: u8) -> bool {
    let wrapped = |k: &str| matches!(k, "Start" | "End" | "Empty" | "Comment" | "Decl" | "PI" | "DocType");
    let mut pos = 0usize;
    for (i, e) in evs.iter().enumerate() {
        let piece = {
            let mut w = Writer::new(Vec::new());
            w.write_event(e.borrow()).unwrap();
            w.into_inner()
        };
        let allowed = i > 0 && wrapped(kinds[i]) && !matches!(kinds[i - 1], "Text" | "CData");
        if allowed && out.get(pos) == Some(&b'\n') {
            pos += 1;
            while out.get(pos) == Some(&ch) {
                pos += 1;
            }
        }
        if !out[pos.min(out.len())..].starts_with(&piece) {
            return false;
        }
        pos += piece.len();
    }
    pos == out.len()
}

/// Create an element at depth `d` of a (plain or indenting) writer over a sink accepting `max` bytes per call, apply the
/// ElementWriter operations, finish it, close the `d` elements; returns the bytes that reached the sink.
fn elem_run(name: &str, eops: &[Value], fin: &[Value], d: usize, indent: Option<(u8, usize)>, is_async: bool, max: usize) -> Vec<u8> {
    use quick_xml::writer::ElementWriter;
    fn ops<'a, W>(mut ew: ElementWriter<'a, W>, eops: &[Value]) -> ElementWriter<'a, W> {
        for op in eops {
            let op = op.as_array().unwrap();
            ew = match op[0].as_str().unwrap() {
                "attr" => ew.with_attribute((s(&op[1]).as_str(), s(&op[2]).as_str())),
                "attrs" => {
                    let ps = pairs(&op[1]);
                    ew.with_attributes(ps.iter().map(|(k, v)| (k.as_str(), v.as_str())))
                }
                _ => ew.new_line(),
            };
        }
        ew
    }
    let sink = crate::env::ShortSink::new(max);
    let mut w = match indent {
        None => Writer::new(sink),
        Some((c, n)) => Writer::new_with_indent(sink, c, n),
    };
    let kind = fin[0].as_str().unwrap();
    let payload = if fin.len() > 1 { s(&fin[1]) } else { String::new() };
    if is_async {
        block_on(async {
            for _ in 0..d {
                w.write_event_async(Event::Start(BytesStart::new("r"))).await.unwrap();
            }
            let ew = ops(w.create_element(name), eops);
            match kind {
                "empty" => { ew.write_empty_async().await.unwrap(); }
                "text" => { ew.write_text_content_async(BytesText::new(&payload)).await.unwrap(); }
                "inner" => {
                    let p2 = payload.clone();
                    ew.write_inner_content_async::<_, _, quick_xml::Error>(|w| async move {
                        w.write_event_async(Event::Text(BytesText::new(&p2))).await?;
                        Ok(w)
                    })
                    .await
                    .unwrap();
                }
                "cdata" => { ew.write_cdata_content_async(BytesCData::new(payload.as_str())).await.unwrap(); }
                _ => { ew.write_pi_content_async(BytesPI::new(payload.as_str())).await.unwrap(); }
            }
            for _ in 0..d {
                w.write_event_async(Event::End(BytesEnd::new("r"))).await.unwrap();
            }
        });
    } else {
        for _ in 0..d {
            w.write_event(Event::Start(BytesStart::new("r"))).unwrap();
        }
        let ew = ops(w.create_element(name), eops);
        match kind {
            "empty" => { ew.write_empty().unwrap(); }
            "text" => { ew.write_text_content(BytesText::new(&payload)).unwrap(); }
            "inner" => {
                ew.write_inner_content(|w| w.write_event(Event::Text(BytesText::new(&payload)))).unwrap();
            }
            "cdata" => { ew.write_cdata_content(BytesCData::new(payload.as_str())).unwrap(); }
            _ => { ew.write_pi_content(BytesPI::new(payload.as_str())).unwrap(); }
        }
        for _ in 0..d {
            w.write_event(Event::End(BytesEnd::new("r"))).unwrap();
        }
    }
    w.into_inner().out
}

pub fn rerun(path: &str) -> bool {
    let v: Value = serde_json::from_str(&std::fs::read_to_string(path).unwrap()).unwrap();
    let tmp = format!("{}.rerun.ndjson", path);
    std::fs::write(&tmp, format!("{}\n", v["behaviour"])).unwrap();
    let r = replay(&tmp, "RERUN", "/dev/null");
    std::fs::remove_file(&tmp).ok();
    println!("{}", r);
    r["violations"].as_u64().unwrap_or(0) > 0
}

// ---------------------------------------------------------------- leg (C)
const HOSTILE: &[&str] = &["", "a", "<", "&", "\"", "'", ">", "]]>", "--", "?>", " ", "é", "&amp;", " a ", "\n", "<a>", "</a>", "日本", "a]]>b]]>", "]]", "&#60;", "x=\"y\"", "a\tb", "\r\n", "\r", "\t"];
const NAMES: &[&str] = &["a", "é", "a:b", "b-1", "_x"];

pub fn record(out: &str, seed: u64, n: usize) -> Value {
    let mut rng = StdRng::seed_from_u64(seed);
    let mut f = std::io::BufWriter::new(std::fs::File::create(out).expect("trace file"));
    let (mut events, mut nontriv) = (0u64, 0u64);
    let mut samples = Vec::new();
    let by = |x: &str| json!(x.as_bytes());
    for i in 0..n {
        if i % 2 == 0 {
            // ---- C19: long event sequences, deep nesting, all kinds
            let len = rng.gen_range(1..60);
            let mut rows: Vec<Value> = Vec::new();
            let deep = rng.gen_bool(0.2);
            for j in 0..len {
                let k = if deep && j < 45 { "Start" } else { ["Start", "End", "Empty", "Text", "Text", "CData", "Comment", "Decl", "PI", "DocType", "End", "Start"][rng.gen_range(0..12)] };
                let b: &str = match k {
                    "Start" | "End" => NAMES[rng.gen_range(0..2)],
                    "Empty" => "e k=\"1\"",
                    "Text" => ["t", " ", "\n ", "a b", "&lt;"][rng.gen_range(0..5)],
                    "CData" => ["c", "", " ", "<x>"][rng.gen_range(0..4)],
                    "Comment" => " x ",
                    "Decl" => "xml version=\"1.0\"",
                    "PI" => "p i",
                    _ => "d",
                };
                rows.push(json!([k, b.as_bytes()]));
            }
            if rng.gen_bool(0.3) {
                rows.push(json!(["Eof", []]));
            }
            let mut ch = if rng.gen_bool(0.5) { b' ' } else { b'\t' };
            let mut size = rng.gen_range(0..10usize);
            // the first records are deterministic: nesting whose indentation crosses the 128 preallocated bytes, then grows
            // level by level well beyond (the cache of indentation bytes is extended on demand)
            const DEEP: [(usize, usize); 6] = [(1, 140), (4, 40), (9, 20), (2, 70), (7, 45), (3, 100)];
            if i / 2 < DEEP.len() {
                let (w, d) = DEEP[i / 2];
                rows.clear();
                for _ in 0..d {
                    rows.push(json!(["Start", "a".as_bytes()]));
                }
                rows.push(json!(["Empty", "e k=\"1\"".as_bytes()]));
                for j in 0..d {
                    if j == d / 2 {
                        rows.push(json!(["Comment", " x ".as_bytes()]));
                    }
                    rows.push(json!(["End", "a".as_bytes()]));
                }
                size = w;
                ch = if i % 4 == 0 { b' ' } else { b'\t' };
            }
            let evs: Vec<Event<'static>> = rows.iter().map(|r| event_of_row(r[0].as_str().unwrap(), &bytes(&r[1]))).collect();
            // a panic of the writer is data: it is recorded as output the specification cannot produce
            let guard = |f: &dyn Fn() -> Vec<u8>| catch_unwind(AssertUnwindSafe(f)).unwrap_or_else(|_| b"<<PANIC>>".to_vec());
            let got = guard(&|| write_sync(&evs, Some((ch, size))));
            let plain = guard(&|| write_sync(&evs, None));
            let asy = guard(&|| write_async(&evs, Some((ch, size))));
            writeln!(f, "{}", json!({"t": "WIndent", "evs": rows, "ch": ch, "size": size, "out": got, "plain": plain, "same_async": if asy == got {1} else {0}})).unwrap();
            if len >= 3 {
                nontriv += 1;
            }
            if samples.len() < 2 && (5..12).contains(&len) {
                samples.push(json!({"events": rows.iter().map(|r| r[0].clone()).collect::<Vec<_>>(), "indent": [ch, size], "out": String::from_utf8_lossy(&got)}));
            }
        } else {
            // ---- C09: random construction sequences with hostile payloads
            let len = rng.gen_range(1..10);
            let mut ops: Vec<Value> = Vec::new();
            for _ in 0..len {
                let h = |rng: &mut StdRng| HOSTILE[rng.gen_range(0..HOSTILE.len())];
                let nm = NAMES[rng.gen_range(0..NAMES.len())];
                let mut at = |rng: &mut StdRng| -> Vec<Value> {
                    (0..rng.gen_range(0..3)).map(|j| json!([by(["k", "k2", "é"][j % 3]), by(h(rng))])).collect()
                };
                let op = match rng.gen_range(0..12) {
                    0 | 1 => {
                        let mut eds: Vec<Value> = Vec::new();
                        for _ in 0..rng.gen_range(0..4) {
                            eds.push(match rng.gen_range(0..4) {
                                0 => json!(["set_name", by(NAMES[rng.gen_range(0..NAMES.len())])]),
                                1 => json!(["clear"]),
                                2 => json!(["push", by("p"), by(h(&mut rng))]),
                                _ => json!(["extend", [[by("x"), by(h(&mut rng))], [by("y"), by(h(&mut rng))]]]),
                            });
                        }
                        json!([if rng.gen_bool(0.7) { "start" } else { "empty" }, by(nm), at(&mut rng), eds])
                    }
                    2 => json!(["end", by(nm)]),
                    3 | 4 => json!(["text", by(h(&mut rng))]),
                    5 => json!(["cdata", by(h(&mut rng))]),
                    6 => json!(["comment", by([" x ", "<&>", "", "a-b"][rng.gen_range(0..4)])]),
                    7 => json!(["pi", by(["t d", "t ?", "t"][rng.gen_range(0..3)])]),
                    8 => json!(["decl", by("1.0"), if rng.gen_bool(0.5) { json!([0]) } else { by("UTF-8") }, if rng.gen_bool(0.5) { json!([0]) } else { by("yes") }]),
                    9 => json!(["elem_text", by(nm), at(&mut rng), by(h(&mut rng))]),
                    10 => json!(["elem_cdata", by(nm), at(&mut rng), by(h(&mut rng))]),
                    _ => json!(["elem_empty", by(nm), at(&mut rng)]),
                };
                ops.push(op);
            }
            let built = catch_unwind(AssertUnwindSafe(|| {
                let mut scratch = Vec::new();
                let evs = build(&ops, &mut scratch);
                let out_b = write_sync(&evs, None);
                let asy = write_async(&evs, None);
                (out_b.clone(), asy == out_b)
            }));
            // a panic in the code under test is data: an output the specification cannot accept
            let (out_b, same) = built.unwrap_or((b"<PANIC".to_vec(), false));
            writeln!(f, "{}", json!({"t": "WBuild", "ops": ops, "out": out_b, "same_async": if same {1} else {0}})).unwrap();
            if len >= 2 {
                nontriv += 1;
            }
            if samples.len() < 4 && len <= 3 {
                samples.push(json!({"ops": ops.iter().map(|o| o[0].clone()).collect::<Vec<_>>(), "out": String::from_utf8_lossy(&out_b)}));
            }
        }
        events += 1;
    }
    f.flush().unwrap();
    json!({"traces": n, "events": events, "nontrivial": nontriv, "samples": samples, "runs": n, "comparisons": events})
}
