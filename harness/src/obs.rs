//! Projection of what a reader call returned into the vocabulary of the
//! specification (spec/Bytes.tla header).  Total and mechanical: kind, payload
//! bytes, name length, error discriminant, positions.  No XML semantics here.

use quick_xml::errors::{Error, IllFormedError, SyntaxError};
use quick_xml::events::Event;
use serde::{Deserialize, Serialize};

#[derive(Clone, Debug, Serialize, Deserialize, PartialEq, Eq, Default)]
pub struct Obs {
    /// Start End Empty Text CData Comment Decl PI DocType Eof Err Panic
    pub k: String,
    /// error discriminant, e.g. "Syntax.UnclosedTag"; "" for events
    pub e: String,
    /// payload bytes (for Err: found name)
    pub b: Vec<u8>,
    /// name length (Start/Empty/PI/Decl)
    pub n: usize,
    /// Err: expected name
    pub x: Vec<u8>,
    /// buffer_position after the call
    pub p: u64,
    /// error_position after the call
    pub q: u64,
}

pub fn syntax_name(e: &SyntaxError) -> &'static str {
    match e {
        SyntaxError::InvalidBangMarkup => "Syntax.InvalidBangMarkup",
        SyntaxError::UnclosedPIOrXmlDecl => "Syntax.UnclosedPIOrXmlDecl",
        SyntaxError::UnclosedComment => "Syntax.UnclosedComment",
        SyntaxError::UnclosedDoctype => "Syntax.UnclosedDoctype",
        SyntaxError::UnclosedCData => "Syntax.UnclosedCData",
        SyntaxError::UnclosedTag => "Syntax.UnclosedTag",
    }
}

pub fn project_err(err: &Error) -> Obs {
    let mut o = Obs { k: "Err".into(), ..Default::default() };
    match err {
        Error::Io(_) => o.e = "Io".into(),
        Error::Syntax(s) => o.e = syntax_name(s).into(),
        Error::IllFormed(i) => match i {
            IllFormedError::MissingDeclVersion(_) => o.e = "IllFormed.MissingDeclVersion".into(),
            IllFormedError::MissingDoctypeName => o.e = "IllFormed.MissingDoctypeName".into(),
            IllFormedError::MissingEndTag(n) => {
                o.e = "IllFormed.MissingEndTag".into();
                o.b = n.as_bytes().to_vec();
            }
            IllFormedError::UnmatchedEndTag(n) => {
                o.e = "IllFormed.UnmatchedEndTag".into();
                o.b = n.as_bytes().to_vec();
            }
            IllFormedError::MismatchedEndTag { expected, found } => {
                o.e = "IllFormed.MismatchedEndTag".into();
                o.b = found.as_bytes().to_vec();
                o.x = expected.as_bytes().to_vec();
            }
            IllFormedError::DoubleHyphenInComment => o.e = "IllFormed.DoubleHyphenInComment".into(),
        },
        Error::InvalidAttr(_) => o.e = "InvalidAttr".into(),
        Error::Encoding(_) => o.e = "Encoding".into(),
        Error::Escape(_) => o.e = "Escape".into(),
        Error::Namespace(_) => o.e = "Namespace".into(),
    }
    o
}

pub fn project_event(ev: &Event) -> Obs {
    let mut o = Obs::default();
    match ev {
        Event::Start(e) => {
            o.k = "Start".into();
            o.b = e.to_vec();
            o.n = e.name().as_ref().len();
        }
        Event::Empty(e) => {
            o.k = "Empty".into();
            o.b = e.to_vec();
            o.n = e.name().as_ref().len();
        }
        Event::End(e) => {
            o.k = "End".into();
            o.b = e.name().as_ref().to_vec();
            o.n = o.b.len();
        }
        Event::Text(e) => {
            o.k = "Text".into();
            o.b = e.to_vec();
        }
        Event::CData(e) => {
            o.k = "CData".into();
            o.b = e.to_vec();
        }
        Event::Comment(e) => {
            o.k = "Comment".into();
            o.b = e.to_vec();
        }
        Event::Decl(e) => {
            o.k = "Decl".into();
            o.b = e.to_vec();
            o.n = 3;
        }
        Event::PI(e) => {
            o.k = "PI".into();
            o.b = e.to_vec();
            o.n = e.target().len();
        }
        Event::DocType(e) => {
            o.k = "DocType".into();
            o.b = e.to_vec();
        }
        Event::Eof => o.k = "Eof".into(),
    }
    o
}

pub fn project(res: &Result<Event, Error>) -> Obs {
    match res {
        Ok(ev) => project_event(ev),
        Err(e) => project_err(e),
    }
}

/// Exercise every payload accessor of an event (C03: "also every payload
/// accessor ... on every returned event"). Results are ignored; only a panic
/// matters, and the caller runs this under `catch_unwind`.
pub fn touch_accessors(ev: &Event) {
    fn attrs(a: quick_xml::events::attributes::Attributes) {
        let mut it = a;
        let mut guard = 0;
        while let Some(r) = it.next() {
            if let Ok(at) = r {
                let _ = at.key.prefix();
                let _ = at.key.local_name();
                let _ = at.key.as_namespace_binding();
                #[cfg(not(feature = "enc"))]
                let _ = at.unescape_value();
            }
            guard += 1;
            if guard > 100_000 {
                panic!("attribute iteration does not end");
            }
        }
        assert!(it.next().is_none(), "attribute iterator not fused");
    }
    match ev {
        Event::Start(e) | Event::Empty(e) => {
            let _ = e.name().prefix();
            let _ = e.local_name();
            let _ = e.attributes_raw();
            attrs(e.attributes());
            attrs(e.html_attributes());
            let mut a = e.attributes();
            a.with_checks(false);
            attrs(a);
            let _ = e.try_get_attribute("a");
            let _ = e.to_end();
        }
        Event::End(e) => {
            let _ = e.name().prefix();
            let _ = e.local_name();
        }
        Event::Text(e) | Event::Comment(e) | Event::DocType(e) => {
            #[cfg(not(feature = "enc"))]
            let _ = e.unescape();
            let mut c = e.clone();
            let _ = c.inplace_trim_start();
            let _ = c.inplace_trim_end();
        }
        Event::CData(e) => {
            let _ = e.clone().escape();
            let _ = e.clone().partial_escape();
            let _ = e.clone().minimal_escape();
        }
        Event::Decl(e) => {
            let _ = e.version();
            let _ = e.encoding();
            let _ = e.standalone();
        }
        Event::PI(e) => {
            let _ = e.target();
            let _ = e.content();
            attrs(e.attributes());
        }
        Event::Eof => {}
    }
}
