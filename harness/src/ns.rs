//! C05: NsReader. Leg (B): TLC-generated documents + call histories with the
//! expected resolver answers after every call; leg (C): recorded traces for
//! spec/TraceNs.tla.

use std::io::{BufRead, Write};
use std::panic::{catch_unwind, AssertUnwindSafe};

use quick_xml::events::Event;
use quick_xml::name::{PrefixDeclaration, QName, ResolveResult};
use quick_xml::reader::NsReader;
use rand::rngs::StdRng;
use rand::{Rng, SeedableRng};
use serde::Deserialize;
use serde_json::{json, Value};

use crate::env::{block_on, Chunked, Plan};
use crate::obs::{project, project_err, Obs};
use crate::reader::{apply_cfg, CfgBits};

pub const POOL: &[&str] = &["a", "p:a", "q:a", "xml:a", "xmlns:a"];

fn rr(r: &ResolveResult) -> Value {
    match r {
        ResolveResult::Unbound => json!(["Unbound"]),
        ResolveResult::Bound(ns) => json!(["Bound", ns.as_ref()]),
        ResolveResult::Unknown(p) => json!(["Unknown", p]),
    }
}

#[derive(Clone, Debug)]
pub struct NsObs {
    pub op: String, // read | rte
    pub o: Obs,
    pub span: Option<(u64, u64)>,
    pub resolved: Option<Value>,
    pub queries: Vec<Value>,
    pub prefixes: Vec<Value>,
    pub nserr: String,
}

/// NsScope!LocalOf: the part after the first colon (the whole name when there is none)
fn local_of(n: &[u8]) -> &[u8] {
    match n.iter().position(|b| *b == b':') {
        Some(i) => &n[i + 1..],
        None => n,
    }
}

macro_rules! queries {
    ($r:expr, $pool:expr) => {{
        let mut q = Vec::new();
        // resolve(name, attribute) is the general form of resolve_element / resolve_attribute: the answers (namespace and
        // local name) must be the same; a disagreement is made visible as an answer the specification never gives
        for n in $pool.iter() {
            let (a, la) = $r.resolve_element(QName(n.as_bytes()));
            let (b, lb) = $r.resolve(QName(n.as_bytes()), false);
            let local_ok = la.as_ref() == local_of(n.as_bytes());
            q.push(if rr(&a) == rr(&b) && la == lb && local_ok { rr(&a) } else { json!("resolve(_, false) differs from resolve_element, or wrong local name") });
        }
        for n in $pool.iter() {
            let (a, la) = $r.resolve_attribute(QName(n.as_bytes()));
            let (b, lb) = $r.resolve(QName(n.as_bytes()), true);
            let local_ok = la.as_ref() == local_of(n.as_bytes());
            q.push(if rr(&a) == rr(&b) && la == lb && local_ok { rr(&a) } else { json!("resolve(_, true) differs from resolve_attribute, or wrong local name") });
        }
        let pf: Vec<Value> = $r
            .prefixes()
            .map(|(d, ns)| match d {
                PrefixDeclaration::Default => json!([Vec::<u8>::new(), ns.as_ref()]),
                PrefixDeclaration::Named(p) => json!([p, ns.as_ref()]),
            })
            .collect();
        (q, pf)
    }};
}

macro_rules! drive_ns {
    ($reader:ident, $ops:ident, $pool:ident, $out:ident, $use_resolved:expr,
     read: $read:expr, read_res: $read_res:expr, rte: $rte:expr) => {{
        // names of the open elements as observed through the events (skip = read_to_end on the innermost one)
        let mut open: Vec<Vec<u8>> = Vec::new();
        for (i, op) in $ops.iter().enumerate() {
            let do_skip = op == "rte" && !open.is_empty();
            let r = catch_unwind(AssertUnwindSafe(|| {
                if do_skip {
                    let name = open.pop().unwrap();
                    let res: Result<std::ops::Range<u64>, quick_xml::Error> = ($rte)(QName(&name));
                    let mut ob = match &res {
                        Ok(_) => Obs { k: "Span".into(), ..Default::default() },
                        Err(e) => project_err(e),
                    };
                    ob.p = $reader.buffer_position();
                    ob.q = $reader.error_position();
                    let (q, pf) = queries!($reader, $pool);
                    NsObs { op: "rte".into(), o: ob, span: res.ok().map(|s| (s.start, s.end)), resolved: None, queries: q, prefixes: pf, nserr: String::new() }
                } else {
                    let (mut ob, resolved, nserr) = if $use_resolved(i) {
                        let res = $read_res;
                        match res {
                            Ok((r, ev)) => {
                                match &ev {
                                    Event::Start(e) => open.push(e.name().as_ref().to_vec()),
                                    Event::End(_) => {
                                        open.pop();
                                    }
                                    _ => {}
                                }
                                (crate::obs::project_event(&ev), Some(rr(&r)), String::new())
                            }
                            Err(quick_xml::Error::Namespace(e)) => (Obs { k: "NsErr".into(), ..Default::default() }, None, format!("{:?}", e).split('(').next().unwrap_or("").to_string()),
                            Err(e) => (project_err(&e), None, String::new()),
                        }
                    } else {
                        let res = $read;
                        match res {
                            Ok(ev) => {
                                match &ev {
                                    Event::Start(e) => open.push(e.name().as_ref().to_vec()),
                                    Event::End(_) => {
                                        open.pop();
                                    }
                                    _ => {}
                                }
                                (crate::obs::project_event(&ev), None, String::new())
                            }
                            Err(quick_xml::Error::Namespace(e)) => (Obs { k: "NsErr".into(), ..Default::default() }, None, format!("{:?}", e).split('(').next().unwrap_or("").to_string()),
                            Err(e) => (project_err(&e), None, String::new()),
                        }
                    };
                    ob.p = $reader.buffer_position();
                    ob.q = $reader.error_position();
                    let (q, pf) = queries!($reader, $pool);
                    NsObs { op: "read".into(), o: ob, span: None, resolved, queries: q, prefixes: pf, nserr }
                }
            }));
            match r {
                Ok(o) => {
                    let stop = o.o.k == "NsErr";
                    $out.push(o);
                    if stop {
                        break;
                    }
                }
                Err(_) => {
                    $out.push(NsObs { op: "panic".into(), o: Obs { k: "Panic".into(), ..Default::default() }, span: None, resolved: None, queries: vec![], prefixes: vec![], nserr: String::new() });
                    break;
                }
            }
        }
    }};
}

/// source: 0 slice, 1 buffered, 2 async.  `resolved_mask`: which reads use read_resolved_event*
pub fn run_ns(input: &[u8], cfg: &CfgBits, ops: &[String], pool: &[String], source: u8, plan: &Plan, resolved_every: usize, text_skip: bool) -> Vec<NsObs> {
    let mut out: Vec<NsObs> = Vec::new();
    let use_res = |i: usize| resolved_every != 0 && i % resolved_every == 0;
    match source {
        0 => {
            let mut reader = NsReader::from_reader(input);
            apply_cfg(reader.config_mut(), cfg);
            drive_ns!(reader, ops, pool, out, use_res,
                read: reader.read_event(),
                read_res: reader.read_resolved_event(),
                rte: |qn| if text_skip {
                    let start = reader.buffer_position();
                    reader.read_text(qn).map(|t| start..start + t.len() as u64)
                } else { reader.read_to_end(qn) });
        }
        1 => {
            let mut reader = NsReader::from_reader(Chunked::new(input, plan.clone()));
            apply_cfg(reader.config_mut(), cfg);
            let mut buf = Vec::new();
            drive_ns!(reader, ops, pool, out, use_res,
                read: { buf.clear(); reader.read_event_into(&mut buf) },
                read_res: { buf.clear(); reader.read_resolved_event_into(&mut buf) },
                rte: |qn| { buf.clear(); reader.read_to_end_into(qn, &mut buf) });
        }
        _ => {
            let mut reader = NsReader::from_reader(Chunked::new(input, plan.clone()));
            apply_cfg(reader.config_mut(), cfg);
            let mut buf = Vec::new();
            drive_ns!(reader, ops, pool, out, use_res,
                read: { buf.clear(); block_on(reader.read_event_into_async(&mut buf)) },
                read_res: { buf.clear(); block_on(reader.read_resolved_event_into_async(&mut buf)) },
                rte: |qn| { buf.clear(); block_on(reader.read_to_end_into_async(qn, &mut buf)) });
        }
    }
    out
}

#[derive(Deserialize)]
struct Beh {
    #[serde(rename = "in")]
    input: Vec<u8>,
    cfg: CfgBits,
    steps: Vec<Value>,
    #[serde(default)]
    alt: Vec<Value>,
}

/// Does the actual observation agree with the expected step row
/// [op, evrow, resolved, queries, prefixes, nserr]?
fn step_matches(exp: &Value, act: &NsObs, input: &[u8]) -> Result<(), &'static str> {
    let a = exp.as_array().unwrap();
    let op = a[0].as_str().unwrap();
    if act.o.k == "Panic" {
        return Err("panic");
    }
    if op != act.op {
        return Err("operation");
    }
    let row = a[1].as_array().unwrap();
    let g = |i: usize| row[i].as_u64().unwrap() as usize;
    let k = row[0].as_str().unwrap();
    let nserr = a[5].as_str().unwrap();
    if !nserr.is_empty() {
        return if act.o.k == "NsErr" && act.nserr == nserr { Ok(()) } else { Err("namespace-error") };
    }
    if k != act.o.k {
        return Err("kind");
    }
    if op == "rte" {
        if k == "Span" && act.span != Some((g(9) as u64, g(10) as u64)) {
            return Err("span");
        }
    } else if k != "Err" {
        if act.o.b != input[g(2)..g(3)] || act.o.n != g(4) {
            return Err("payload");
        }
    }
    if k != "Err" && act.o.p != g(7) as u64 {
        return Err("position");
    }
    if let Some(r) = &act.resolved {
        if *r != a[2] {
            return Err("resolved-event-namespace");
        }
    }
    let q = a[3].as_array().unwrap();
    if q.len() != act.queries.len() || q.iter().zip(act.queries.iter()).any(|(x, y)| x != y) {
        return Err("resolve");
    }
    let pf = a[4].as_array().unwrap();
    if pf.len() != act.prefixes.len() || pf.iter().zip(act.prefixes.iter()).any(|(x, y)| x != y) {
        return Err("prefixes");
    }
    Ok(())
}

fn run_matches(exp: &[Value], act: &[NsObs], input: &[u8]) -> Result<(), (usize, &'static str)> {
    // a namespace error ends the behaviour on both sides
    let n = exp.len().min(act.len());
    for i in 0..n {
        step_matches(&exp[i], &act[i], input).map_err(|w| (i, w))?;
        if act[i].o.k == "NsErr" {
            return Ok(());
        }
    }
    if exp.len() != act.len() {
        return Err((n, "number-of-steps"));
    }
    Ok(())
}

/// NsReader totality: the whole document read with read_resolved_event_into, GOING ON after every recoverable error
/// (namespace errors, ill-formedness), every element and attribute name resolved and the prefixes listed after every call,
/// on the slice and on a chunked source: no panic, and the run ends.
fn ns_total(input: &[u8]) -> Result<(), String> {
    use quick_xml::events::Event;
    use quick_xml::NsReader;
    for chunked in [false, true] {
        let r = std::panic::catch_unwind(std::panic::AssertUnwindSafe(|| -> Result<(), String> {
            let plan = Plan { cuts: if chunked { vec![2; input.len() / 2 + 1] } else { vec![] }, ..Default::default() };
            let mut reader = NsReader::from_reader(crate::env::Chunked::new(input, plan));
            let mut buf = Vec::new();
            for _ in 0..(2 * input.len() + 8) {
                buf.clear();
                let mut names: Vec<Vec<u8>> = Vec::new();
                let mut attrs: Vec<Vec<u8>> = Vec::new();
                let mut eof = false;
                match reader.read_resolved_event_into(&mut buf) {
                    Ok((res, ev)) => {
                        let _ = format!("{res:?}");
                        match ev {
                            Event::Eof => eof = true,
                            Event::Start(e) | Event::Empty(e) => {
                                names.push(e.name().as_ref().to_vec());
                                for a in e.attributes().with_checks(false).flatten() {
                                    attrs.push(a.key.as_ref().to_vec());
                                }
                            }
                            Event::End(e) => names.push(e.name().as_ref().to_vec()),
                            _ => {}
                        }
                    }
                    Err(quick_xml::Error::Syntax(_)) | Err(quick_xml::Error::Io(_)) => eof = true,
                    Err(_) => {}
                }
                for n in &names {
                    let _ = format!("{:?}", reader.resolve_element(quick_xml::name::QName(n)));
                }
                for a in &attrs {
                    let _ = format!("{:?}", reader.resolve_attribute(quick_xml::name::QName(a)));
                }
                let _ = reader.prefixes().count();
                if eof {
                    return Ok(());
                }
            }
            Err("the run does not end".to_string())
        }));
        match r {
            Ok(Ok(())) => {}
            Ok(Err(e)) => return Err(e),
            Err(_) => return Err(format!("panic ({} source)", if chunked { "chunked" } else { "one-piece" })),
        }
    }
    Ok(())
}

/// Scope at ANY depth: a declaration on an element nested `depth` levels deep ends with that element, whatever the depth
/// (deterministic documents of 300 / 65 535 / 65 536 / 65 537 / 70 000 levels; expectation: the declarative scope).
fn ns_deep() -> Result<u64, String> {
    use quick_xml::events::Event;
    use quick_xml::name::ResolveResult;
    use quick_xml::NsReader;
    let mut runs = 0u64;
    for depth in [300usize, 65_535, 65_536, 65_537, 70_000] {
        let mut doc = String::with_capacity(depth * 8 + 100);
        doc.push_str("<r>");
        for _ in 1..depth {
            doc.push_str("<d>");
        }
        doc.push_str("<e xmlns:p='urn:u' xmlns='urn:v'/><p:f/><g/>");
        for _ in 1..depth {
            doc.push_str("</d>");
        }
        doc.push_str("</r>");
        let r = std::panic::catch_unwind(|| -> Result<(), String> {
            let mut reader = NsReader::from_str(&doc);
            loop {
                match reader.read_resolved_event() {
                    Ok((res, Event::Empty(e))) => {
                        let name = e.name().as_ref().to_vec();
                        let want_bound = name == b"e";
                        let ok = match (&res, name.as_slice()) {
                            (ResolveResult::Bound(_), b"e") => true,
                            (ResolveResult::Unknown(_), b"p:f") => true,
                            (ResolveResult::Unbound, b"g") => true,
                            _ => false,
                        };
                        if !ok {
                            return Err(format!("depth {depth}: <{}> resolves to {res:?}", String::from_utf8_lossy(&name)));
                        }
                        let n = reader.prefixes().count();
                        if (want_bound && n != 2) || (!want_bound && name == b"g" && n != 0) {
                            return Err(format!("depth {depth}: {n} prefixes in scope at <{}>", String::from_utf8_lossy(&name)));
                        }
                    }
                    Ok((_, Event::Eof)) => return Ok(()),
                    Ok(_) => {}
                    Err(e) => return Err(format!("depth {depth}: {e}")),
                }
            }
        });
        runs += 1;
        match r {
            Ok(Ok(())) => {}
            Ok(Err(e)) => return Err(e),
            Err(_) => return Err(format!("depth {depth}: panic")),
        }
    }
    Ok(runs)
}

pub fn replay(file: &str, prop: &str, out_dir: &str, known_dev: &str) -> Value {
    let mut total_seen: std::collections::HashSet<Vec<u8>> = std::collections::HashSet::new();
    let f = std::io::BufReader::new(std::fs::File::open(file).expect("behaviour file"));
    let (mut n, mut runs, mut cmp, mut viol, mut nontriv) = (0u64, 0u64, 0u64, 0u64, 0u64);
    let mut devs = 0u64;
    let mut files: Vec<String> = Vec::new();
    let mut samples = Vec::new();
    let pool: Vec<String> = POOL.iter().map(|s| s.to_string()).collect();
    for line in f.lines() {
        let line = line.unwrap();
        if line.trim().is_empty() {
            continue;
        }
        let b: Beh = serde_json::from_str(&line).expect("json");
        n += 1;
        let ops: Vec<String> = b.steps.iter().map(|s| s[0].as_str().unwrap().to_string()).collect();
        if ops.iter().any(|o| o == "rte") {
            nontriv += 1;
        }
        if samples.len() < 3 && ops.iter().any(|o| o == "rte") && n % 211 == 0 {
            samples.push(json!({"document": String::from_utf8_lossy(&b.input), "calls": ops}));
        }
        if total_seen.insert(b.input.clone()) {
            runs += 1;
            if let Err(e) = ns_total(&b.input) {
                viol += 1;
                if files.len() < 5 {
                    let path = format!("{}/{}-total-{}.json", out_dir, prop, files.len());
                    std::fs::create_dir_all(out_dir).ok();
                    std::fs::write(&path, serde_json::to_string_pretty(&json!({"property": prop, "kind": "ns-total", "what": e,
                        "input": b.input, "document": String::from_utf8_lossy(&b.input)})).unwrap()).ok();
                    println!("VIOLATION property={} replay={}", prop, path);
                    files.push(path);
                }
            }
        }
        let len = b.input.len();
        let variants: Vec<(u8, Plan, usize, bool)> = vec![
            (0, Plan::default(), 1, false),
            (0, Plan::default(), 0, true),
            (1, Plan { cuts: vec![1; len + 1], ..Default::default() }, 2, false),
            (1, Plan { cuts: vec![5; len / 5 + 1], ..Default::default() }, 1, false),
            (2, Plan { cuts: vec![3; len / 3 + 1], pendings: vec![1, 0], ..Default::default() }, 1, false),
        ];
        for (src, plan, every, text_skip) in variants {
            let act = run_ns(&b.input, &b.cfg, &ops, &pool, src, &plan, every, text_skip);
            runs += 1;
            cmp += act.len() as u64;
            if let Err((at, what)) = run_matches(&b.steps, &act, &b.input) {
                if !b.alt.is_empty() && run_matches(&b.alt, &act, &b.input).is_ok() {
                    devs += 1;
                    continue;
                }
                viol += 1;
                if files.len() < 5 {
                    let path = format!("{}/{}-{}.json", out_dir, prop, files.len());
                    std::fs::create_dir_all(out_dir).ok();
                    let actual: Vec<Value> = act.iter().map(|o| json!({"op": o.op, "k": o.o.k, "e": o.o.e, "b": String::from_utf8_lossy(&o.o.b), "p": o.o.p,
                        "span": o.span, "resolved": o.resolved, "queries": o.queries, "prefixes": o.prefixes, "nserr": o.nserr})).collect();
                    std::fs::write(&path, serde_json::to_string_pretty(&json!({"property": prop, "kind": "ns-replay", "what": what, "at_step": at,
                        "input": b.input, "document": String::from_utf8_lossy(&b.input), "cfg": b.cfg, "ops": ops, "source": src, "cuts": plan.cuts,
                        "pendings": plan.pendings, "resolved_every": every, "text_skip": text_skip, "pool": POOL,
                        "expected_steps": b.steps, "actual": actual})).unwrap()).ok();
                    println!("VIOLATION property={} replay={}", prop, path);
                    files.push(path);
                }
            }
        }
    }
    match ns_deep() {
        Ok(r) => runs += r,
        Err(e) => {
            viol += 1;
            let path = format!("{}/{}-deep-{}.json", out_dir, prop, files.len());
            std::fs::create_dir_all(out_dir).ok();
            std::fs::write(&path, serde_json::to_string_pretty(&json!({"property": prop, "kind": "ns-deep", "what": e})).unwrap()).ok();
            println!("VIOLATION property={} replay={}", prop, path);
            files.push(path);
        }
    }
    let mut du = serde_json::Map::new();
    if devs > 0 {
        du.insert(known_dev.to_string(), json!(devs));
    }
    json!({"behaviours": n, "runs": runs, "comparisons": cmp, "nontrivial": nontriv, "violations": viol, "samples": samples, "devs_used": du})
}

pub fn rerun(path: &str) -> bool {
    let v: Value = serde_json::from_str(&std::fs::read_to_string(path).unwrap()).unwrap();
    let input: Vec<u8> = serde_json::from_value(v["input"].clone()).unwrap();
    let cfg: CfgBits = serde_json::from_value(v["cfg"].clone()).unwrap();
    let ops: Vec<String> = serde_json::from_value(v["ops"].clone()).unwrap();
    let pool: Vec<String> = POOL.iter().map(|s| s.to_string()).collect();
    let plan = Plan { cuts: serde_json::from_value(v["cuts"].clone()).unwrap_or_default(), pendings: serde_json::from_value(v["pendings"].clone()).unwrap_or_default(), ..Default::default() };
    let act = run_ns(&input, &cfg, &ops, &pool, v["source"].as_u64().unwrap() as u8, &plan, v["resolved_every"].as_u64().unwrap() as usize, v["text_skip"].as_bool().unwrap());
    let steps: Vec<Value> = serde_json::from_value(v["expected_steps"].clone()).unwrap();
    let r = run_matches(&steps, &act, &input);
    println!("document: {}\ncalls: {:?}\nresult: {:?}", String::from_utf8_lossy(&input), ops, r);
    r.is_err()
}

// ---------------------------------------------------------------- leg (C)
fn gen_doc(rng: &mut StdRng, out: &mut String, depth: usize, budget: &mut i32) {
    let names = ["a", "p:a", "q:b", "b", "xml:c"];
    let decls = ["", "", " xmlns=\"u\"", " xmlns=\"\"", " xmlns:p=\"u\"", " xmlns:p='v'", " xmlns:p=\"\"", " xmlns:q=\"w\"", " xmlns:p=\"u\" xmlns=\"v\"",
        " xmlns:p=\"u\" xmlns:p=\"v\"", " p:k=\"1\"", " k='2' xmlns:q='u'", " xmlns:xml=\"http://www.w3.org/XML/1998/namespace\""];
    let n = rng.gen_range(1..4);
    for _ in 0..n {
        if *budget <= 0 {
            return;
        }
        *budget -= 1;
        let name = names[rng.gen_range(0..names.len())];
        let d = decls[rng.gen_range(0..decls.len())];
        match rng.gen_range(0..6) {
            0 => out.push_str("text"),
            1 => {
                out.push('<');
                out.push_str(name);
                out.push_str(d);
                out.push_str("/>");
            }
            2 => out.push_str("<!-- c -->"),
            _ => {
                out.push('<');
                out.push_str(name);
                out.push_str(d);
                out.push('>');
                if depth < 5 {
                    gen_doc(rng, out, depth + 1, budget);
                }
                out.push_str("</");
                out.push_str(name);
                out.push('>');
            }
        }
    }
}

pub fn record(out: &str, seed: u64, n: usize) -> Value {
    let mut rng = StdRng::seed_from_u64(seed);
    let mut f = std::io::BufWriter::new(std::fs::File::create(out).expect("trace file"));
    let pool: Vec<String> = POOL.iter().map(|s| s.to_string()).collect();
    let (mut events, mut nontriv) = (0u64, 0u64);
    let mut samples = Vec::new();
    for i in 0..n {
        let mut doc = String::new();
        let mut budget = rng.gen_range(3..25);
        gen_doc(&mut rng, &mut doc, 0, &mut budget);
        let input = doc.into_bytes();
        let mut cfg: CfgBits = crate::reader::DEFAULT;
        cfg[3] = rng.gen_range(0..2);
        cfg[5] = rng.gen_range(0..2);
        let calls = input.len() / 3 + 4;
        let ops: Vec<String> = (0..calls).map(|_| if rng.gen_bool(0.2) { "rte".to_string() } else { "read".to_string() }).collect();
        let source = rng.gen_range(0..3u8);
        let plan = Plan { cuts: crate::gen::random_cuts(&mut rng, input.len()), pendings: vec![rng.gen_range(0..2)], ..Default::default() };
        let every = rng.gen_range(0..3);
        let text_skip = rng.gen_bool(0.3);
        let act = run_ns(&input, &cfg, &ops, &pool, source, &plan, every, text_skip);
        writeln!(f, "{}", json!({"t": "NsReset", "in": input, "cfg": cfg, "pool": POOL.iter().map(|s| s.as_bytes()).collect::<Vec<_>>(), "run": i})).unwrap();
        events += 1;
        let mut skipped = false;
        let mut eof = false;
        for o in &act {
            if o.op == "rte" {
                skipped = true;
                writeln!(f, "{}", json!({"t": "NsSkip", "k": o.o.k, "e": o.o.e, "s": o.span.map(|(a, b)| vec![a, b]).unwrap_or_default(), "p": o.o.p,
                    "q": o.queries, "pf": o.prefixes})).unwrap();
            } else {
                writeln!(f, "{}", json!({"t": "NsRead", "k": o.o.k, "e": o.o.e, "b": o.o.b, "n": o.o.n, "x": o.o.x, "p": o.o.p, "eq": o.o.q,
                    "res": o.resolved.clone().unwrap_or(json!([])), "q": o.queries, "pf": o.prefixes, "nserr": o.nserr})).unwrap();
            }
            events += 1;
            if o.o.k == "Eof" || o.o.k == "Err" || o.o.k == "NsErr" || o.o.k == "Panic" {
                eof = true;
            }
            if eof {
                break;
            }
        }
        if skipped {
            nontriv += 1;
        }
        if samples.len() < 3 && skipped && input.len() < 160 {
            samples.push(json!({"document": String::from_utf8_lossy(&input), "calls": act.iter().map(|o| format!("{}:{}", o.op, o.o.k)).collect::<Vec<_>>()}));
        }
    }
    f.flush().unwrap();
    json!({"traces": n, "events": events, "nontrivial": nontriv, "samples": samples, "runs": n, "comparisons": events})
}
