//! C17 (only with the `enc` flavour = quick-xml feature `encoding`):
//! traces for spec/TraceEncoding.tla.
#![cfg(feature = "enc")]

use std::io::Write;

use encoding_rs::*;
use quick_xml::events::Event;
use quick_xml::reader::Reader;
use rand::rngs::StdRng;
use rand::{Rng, SeedableRng};
use serde_json::{json, Value};

use crate::env::{Chunked, Plan};

static ALL: &[&Encoding] = &[
    BIG5, EUC_JP, EUC_KR, GBK, GB18030, IBM866, ISO_8859_2, ISO_8859_3, ISO_8859_4, ISO_8859_5, ISO_8859_6, ISO_8859_7, ISO_8859_8,
    ISO_8859_8_I, ISO_8859_10, ISO_8859_13, ISO_8859_14, ISO_8859_15, ISO_8859_16, KOI8_R, KOI8_U, MACINTOSH, SHIFT_JIS, WINDOWS_874,
    WINDOWS_1250, WINDOWS_1251, WINDOWS_1252, WINDOWS_1253, WINDOWS_1254, WINDOWS_1255, WINDOWS_1256, WINDOWS_1257, WINDOWS_1258,
    X_MAC_CYRILLIC, UTF_8, ISO_2022_JP, UTF_16LE, UTF_16BE, X_USER_DEFINED,
];

struct Ev {
    k: String,
    bytes: Vec<u8>,
    decoded: Option<String>,
    label: String,
    enc: String,
}

fn kind(e: &Event) -> &'static str {
    match e {
        Event::Start(_) => "Start",
        Event::End(_) => "End",
        Event::Empty(_) => "Empty",
        Event::Text(_) => "Text",
        Event::CData(_) => "CData",
        Event::Comment(_) => "Comment",
        Event::Decl(_) => "Decl",
        Event::PI(_) => "PI",
        Event::DocType(_) => "DocType",
        Event::Eof => "Eof",
    }
}

macro_rules! collect {
    ($reader:ident, $read:expr) => {{
        let mut out: Vec<Ev> = Vec::new();
        for _ in 0..10_000 {
            let r = $read;
            match r {
                Ok(Event::Eof) => break,
                Ok(ev) => {
                    let bytes: Vec<u8> = match &ev {
                        Event::Start(e) | Event::Empty(e) => e.to_vec(),
                        Event::End(e) => e.to_vec(),
                        Event::Text(e) | Event::Comment(e) | Event::DocType(e) => e.to_vec(),
                        Event::CData(e) => e.to_vec(),
                        Event::Decl(e) => e.to_vec(),
                        Event::PI(e) => e.to_vec(),
                        Event::Eof => vec![],
                    };
                    let label = if let Event::Decl(d) = &ev {
                        d.encoding().and_then(|e| e.ok()).and_then(|l| Encoding::for_label(&l)).map(|e| e.name().to_string()).unwrap_or_default()
                    } else {
                        String::new()
                    };
                    let dec = $reader.decoder();
                    let decoded = dec.decode(&bytes).ok().map(|c| c.into_owned());
                    // Decoder::decode_into is the same function with a caller-supplied buffer: same text or the same refusal
                    let mut sbuf = String::from("#");
                    let decoded2 = dec.decode_into(&bytes, &mut sbuf).ok().map(|_| sbuf[1..].to_string());
                    let mut k = if decoded == decoded2 { kind(&ev).to_string() } else { "DecodeIntoDisagrees".to_string() };
                    // a CDATA section converted to a text event (BytesCData::escape / partial_escape / minimal_escape) and
                    // unescaped again is the decoded content of the section
                    if let Event::CData(c) = &ev {
                        for (name, t) in [("escape", c.clone().escape()), ("partial_escape", c.clone().partial_escape()), ("minimal_escape", c.clone().minimal_escape())] {
                            let back = t.ok().and_then(|t| t.unescape().ok().map(|x| x.into_owned()));
                            if back != decoded && decoded.is_some() {
                                k = format!("CData::{name}+unescape disagrees with decode");
                            }
                        }
                    }
                    // detaching an event from the buffer (into_owned / to-owned conversions, as every collecting caller does)
                    // does not change what its own decoding API returns
                    match &ev {
                        Event::Text(t) | Event::Comment(t) | Event::DocType(t) => {
                            let a = t.unescape().ok().map(|c| c.into_owned());
                            let b1 = t.clone().into_owned().unescape().ok().map(|c| c.into_owned());
                            let b2 = match ev.clone().into_owned() {
                                Event::Text(t2) | Event::Comment(t2) | Event::DocType(t2) => t2.unescape().ok().map(|c| c.into_owned()),
                                _ => None,
                            };
                            if a != b1 || a != b2 {
                                k = format!("into_owned changes the text of a {} event: {a:?} / {b1:?} / {b2:?}", kind(&ev));
                            }
                            // the decoder carried by the event is the reader's: without references in the payload, unescape() is decode()
                            if !bytes.contains(&b'&') && a != decoded {
                                k = format!("the decoder carried by a {} event disagrees with the reader's: {a:?} / {decoded:?}", kind(&ev));
                            }
                        }
                        Event::CData(c) => {
                            let a = c.clone().escape().ok().and_then(|t| t.unescape().ok().map(|x| x.into_owned()));
                            let b1 = c.clone().into_owned().escape().ok().and_then(|t| t.unescape().ok().map(|x| x.into_owned()));
                            if a != b1 {
                                k = format!("into_owned changes the text of a CData event: {a:?} / {b1:?}");
                            }
                        }
                        _ => {}
                    }
                    out.push(Ev { k, bytes, decoded, label, enc: dec.encoding().name().to_string() });
                }
                Err(_) => {
                    out.push(Ev { k: "Err".into(), bytes: vec![], decoded: None, label: String::new(), enc: $reader.decoder().encoding().name().to_string() });
                    break;
                }
            }
        }
        out
    }};
}

/// source: 0 = slice from_reader, 1 = from_str, 2 = buffered (first piece = `first_piece` bytes),
/// 3 = buffered whose very first refill fails once with a hard I/O error, after which the caller simply calls again
fn read_all(input: &[u8], source: u8, first_piece: usize) -> Vec<Ev> {
    match source {
        0 => {
            let mut reader = Reader::from_reader(input);
            collect!(reader, reader.read_event())
        }
        1 => {
            let mut reader = Reader::from_str(std::str::from_utf8(input).unwrap());
            collect!(reader, reader.read_event())
        }
        2 => {
            let cuts = if first_piece == 0 { vec![] } else { vec![first_piece, 3, 1, 7, 2, 5, 64] };
            let mut reader = Reader::from_reader(Chunked::new(input, Plan { cuts, ..Default::default() }));
            let mut buf = Vec::new();
            collect!(reader, { buf.clear(); reader.read_event_into(&mut buf) })
        }
        4 => {
            // the very first refill is answered `Interrupted` once (twice): invisible, the sniffer sees the same first piece
            let cuts = if first_piece == 0 { vec![] } else { vec![first_piece, 3, 1, 7, 2, 5, 64] };
            let mut reader = Reader::from_reader(Chunked::new(input, Plan { cuts, interrupts: vec![(0, 1 + first_piece % 2)], ..Default::default() }));
            let mut buf = Vec::new();
            collect!(reader, { buf.clear(); reader.read_event_into(&mut buf) })
        }
        _ => {
            let cuts = if first_piece == 0 { vec![] } else { vec![first_piece, 3, 1, 7, 2, 5, 64] };
            let mut reader = Reader::from_reader(Chunked::new(input, Plan { cuts, error_at: Some(0), ..Default::default() }));
            let mut buf = Vec::new();
            // the failed first call is not an event; what matters is the stream seen by the retrying caller
            let first = reader.read_event_into(&mut buf).map(|e| e.into_owned());
            let mut out = match first {
                Err(quick_xml::Error::Io(_)) => Vec::new(),
                _ => vec![Ev { k: "NoIoError".into(), bytes: vec![], decoded: None, label: String::new(), enc: String::new() }],
            };
            let rest: Vec<Ev> = collect!(reader, { buf.clear(); reader.read_event_into(&mut buf) });
            out.extend(rest);
            out
        }
    }
}

fn write_run(f: &mut impl Write, ctor: &str, first: &[u8], malformed: bool, evs: &[Ev], orig: Option<&[Ev]>, truth: Option<&[String]>, events: &mut u64) {
    writeln!(f, "{}", json!({"t": "EncReset", "ctor": ctor, "first": first, "malformed": if malformed {1} else {0}})).unwrap();
    *events += 1;
    for (i, e) in evs.iter().enumerate() {
        let (same, kind_same) = match orig {
            // decision-space runs: only the encoding in force is under test (the
            // document is ASCII whatever the signature claims)
            None => (true, true),
            Some(o) => match o.get(i) {
                // the declaration's own text differs (it names the encoding); every other payload must be equal
                Some(oe) if e.k == "Decl" => (e.decoded.is_some(), oe.k == "Decl"),
                Some(oe) => {
                    // the decoded payload must be the ORIGINAL string the document was generated from
                    // (ground truth of the generator, not a second run of the code under test)
                    let want = truth.and_then(|t| t.get(i)).cloned().or_else(|| oe.decoded.clone());
                    (e.decoded.is_some() && e.decoded == want, e.k == oe.k || (malformed && e.k == "Err"))
                }
                None => (false, malformed),
            },
        };
        writeln!(f, "{}", json!({"t": "EncEv", "k": e.k, "label": e.label, "enc": e.enc,
            // the document-leading byte-order mark must not show up in the first event (U+FEFF elsewhere is content)
            "bom_in_event": if i == 0 && (e.bytes.starts_with(&[0xEF, 0xBB, 0xBF]) || e.decoded.as_deref().map(|d| d.starts_with('\u{feff}')).unwrap_or(false)) {1} else {0},
            "same": if same {1} else {0}, "decode_ok": if e.decoded.is_some() || orig.is_none() {1} else {0}, "kind_same": if kind_same {1} else {0}})).unwrap();
        *events += 1;
    }
    if let Some(o) = orig {
        if !malformed && o.len() != evs.len() {
            // a missing / extra event is reported as an event that is not the same
            writeln!(f, "{}", json!({"t": "EncEv", "k": "Missing", "label": "", "enc": "", "bom_in_event": 0, "same": 0, "decode_ok": 1, "kind_same": 0})).unwrap();
            *events += 1;
        }
    }
    writeln!(f, "{}", json!({"t": "EncEnd"})).unwrap();
    *events += 1;
}

pub fn record(out: &str, seed: u64, n: usize) -> Value {
    let mut rng = StdRng::seed_from_u64(seed);
    let mut f = std::io::BufWriter::new(std::fs::File::create(out).expect("trace file"));
    let mut events = 0u64;
    let mut traces = 0u64;
    let mut nontriv = 0u64;
    let mut samples = Vec::new();

    // ---- part 1: the decision machine, exhaustively (prefix x constructor x declarations x source)
    let prefixes: Vec<Vec<u8>> = vec![vec![], vec![0xEF, 0xBB, 0xBF], vec![0xFF, 0xFE], vec![0xFE, 0xFF], b"<a/>".to_vec(), b" ".to_vec(), vec![0xEF, 0xBB]];
    let labels = ["", "UTF-8", "windows-1251", "Shift_JIS", "bogus-label", "utf8", "KOI8-R"];
    let mut decl_seqs: Vec<Vec<&str>> = vec![vec![]];
    for a in labels {
        decl_seqs.push(vec![a]);
        for b in labels {
            decl_seqs.push(vec![a, b]);
        }
    }
    for pre in &prefixes {
        for ds in &decl_seqs {
            let mut doc = pre.clone();
            for l in ds {
                if l.is_empty() {
                    doc.extend_from_slice(b"<?xml version=\"1.0\"?>");
                } else {
                    doc.extend_from_slice(format!("<?xml version=\"1.0\" encoding=\"{}\"?>", l).as_bytes());
                }
            }
            doc.extend_from_slice(b"<r k=\"v\">t</r>");
            for source in 0..5u8 {
                if source == 1 && std::str::from_utf8(&doc).is_err() {
                    continue;
                }
                for first_piece in if source >= 2 { vec![0usize, 3, 4, 9] } else { vec![0] } {
                    let evs = read_all(&doc, source, first_piece);
                    let seen = if source >= 2 && first_piece != 0 { first_piece.min(doc.len()) } else { doc.len() };
                    write_run(&mut f, if source == 1 { "str" } else { "reader" }, &doc[..seen.min(4)], false, &evs, None, None, &mut events);
                    traces += 1;
                    if !ds.is_empty() {
                        nontriv += 1;
                    }
                }
            }
        }
    }

    // ---- part 2/3: transcoded documents in every ASCII-compatible encoding, malformed bytes injected
    let pool: Vec<char> = "abz09 éèüñçøßЖяДфЩ日本語한국中文αβγ€“”–".chars().collect();
    let safe = |enc: &'static Encoding, c: char| -> bool {
        let s = c.to_string();
        let (b, _, bad) = enc.encode(&s);
        !bad && b.iter().all(|x| *x >= 0x80 || x.is_ascii_alphanumeric() || *x == b' ')
    };
    for &enc in ALL {
        if !enc.is_ascii_compatible() {
            continue;
        }
        let chars: Vec<char> = pool.iter().cloned().filter(|c| safe(enc, *c)).collect();
        // "mojibake" units: strings whose bytes in THIS encoding are well-formed UTF-8 (the UTF-8 bytes of a few letters read
        // as this encoding).  A document made only of such units and ASCII is valid UTF-8 byte-wise and still means
        // something else: whoever looks at the bytes instead of asking the decoder gets the wrong text.
        let mut units: Vec<String> = Vec::new();
        if enc.is_single_byte() {
            for u in ["é", "п", "р", "ü", "ß", "Ж", "ç"] {
                let (l, bad) = enc.decode_without_bom_handling(u.as_bytes());
                if !bad && l.chars().all(|c| safe(enc, c)) && enc.encode(&l).0.as_ref() == u.as_bytes() {
                    units.push(l.into_owned());
                }
            }
        }
        for a in ["a", "z", "0"] {
            units.push(a.to_string());
        }
        for j in 0..n {
            let moji = j % 4 == 1 && units.len() > 3;
            let mut gen = |rng: &mut StdRng, len: usize| -> String {
                if moji {
                    (0..len).map(|_| units[rng.gen_range(0..units.len())].clone()).collect()
                } else {
                    (0..len).map(|_| chars[rng.gen_range(0..chars.len())]).collect()
                }
            };
            let with_decl = enc != UTF_8 || rng.gen_bool(0.5);
            let bom = enc == UTF_8 && rng.gen_bool(0.5);
            let name = gen(&mut rng, 1).replace(' ', "n").replace(|c: char| c.is_ascii_digit(), "d");
            // payloads; some start with U+FEFF (a character of the content, not a byte-order mark) where encodable
            let zw = if !moji && safe(enc, '\u{feff}') && rng.gen_bool(0.5) { "\u{feff}" } else { "" };
            let (pa, pb, pt, pc, pd, pe, pf) = (format!("{zw}{}", gen(&mut rng, 4)), gen(&mut rng, 2), format!("{zw}{}", gen(&mut rng, 6)).trim_end().to_string() + "x",
                gen(&mut rng, 3), format!("{zw}{}", gen(&mut rng, 4)), gen(&mut rng, 2), gen(&mut rng, 3) + "y");
            // (a DOCTYPE with characters of the document in its internal subset, in two runs out of three)
            let pg = gen(&mut rng, 3);
            let doctype = if j % 3 != 0 && j % 5 != 4 { format!("<!DOCTYPE r{n} [<!ENTITY e \"{}\">]>", pg, n = name) } else { String::new() };
            let body = format!("{doctype}<r{n} k=\"{}\" j='{}'>{}<!--{}--><![CDATA[{}]]><?p {}?><e{n}/>{}</r{n}>", pa, pb, pt, pc, pd, pe, pf, n = name);
            let mut truth: Vec<String> = vec![format!("r{n} k=\"{}\" j='{}'", pa, pb, n = name), pt.clone(), pc.clone(), pd.clone(), format!("p {}", pe), format!("e{n}", n = name), pf.clone(), format!("r{n}", n = name)];
            if !doctype.is_empty() {
                truth.insert(0, format!("r{n} [<!ENTITY e \"{}\">]", pg, n = name));
            }
            let decl = if with_decl { format!("<?xml version=\"1.0\" encoding=\"{}\"?>", enc.name()) } else { String::new() };
            if with_decl {
                truth.insert(0, String::new()); // the declaration's own text is not compared
            }
            let doc_utf8 = format!("{}{}", decl, body);
            let (encoded, _, bad) = enc.encode(&doc_utf8);
            if bad {
                continue;
            }
            let mut bytes = encoded.into_owned();
            if bom {
                let mut b2 = vec![0xEF, 0xBB, 0xBF];
                b2.extend_from_slice(&bytes);
                bytes = b2;
            }
            // baseline: the same document labelled UTF-8 (its decoded payloads are the original strings)
            let base = if with_decl { format!("<?xml version=\"1.0\" encoding=\"UTF-8\"?>{}", body) } else { body.clone() };
            let orig = read_all(base.as_bytes(), 0, 0);
            // decoded payloads of the UTF-8 original are the strings themselves
            // (a single-byte code page with unassigned bytes: one of those bytes is malformed input too)
            let gap: Option<u8> = if enc.is_single_byte() { (0x80u8..=0xFF).find(|b| enc.decode_without_bom_handling(&[*b]).1) } else { None };
            let malformed = j % 5 == 4 && ([UTF_8, SHIFT_JIS, EUC_JP, GBK, BIG5, EUC_KR, GB18030].contains(&enc) || gap.is_some());
            if malformed && enc != UTF_8 && gap.is_none() && (j / 5) % 2 == 0 {
                // a lead byte of a two-byte sequence as the LAST byte of the first text: the sequence is cut off by the `<`
                // that ends the payload (0x81 is a lead byte in all of these encodings, 0x8F in EUC-JP)
                let at = bytes.windows(4).position(|w| w == b"<!--").unwrap_or(bytes.len() - 1);
                bytes.insert(at, if enc == EUC_JP { 0x8F } else { 0x81 });
            } else if malformed {
                // 0xFF is not a valid byte in any of these encodings; put it into text (and sometimes an attribute value)
                // (the root start tag ends with `'>`: the byte goes to the start of the first text)
                let at = bytes.windows(2).position(|w| w == b"'>").map(|p| p + 2).unwrap_or(bytes.len() - 1);
                bytes.insert(at, gap.unwrap_or(0xFF));
                if rng.gen_bool(0.5) {
                    let at2 = bytes.windows(3).position(|w| w == b"k=\"").map(|p| p + 3).unwrap();
                    bytes.insert(at2, gap.unwrap_or(0xFF));
                }
            }
            let source = [0u8, 2, 2, 3, 4][rng.gen_range(0..5)];
            let first_piece = if source >= 2 { [0usize, 3, 4, 5, 40][rng.gen_range(0..5)] } else { 0 };
            let source = if moji { 0 } else { source };
            let mut evs = read_all(&bytes, source, first_piece);
            // Reader::read_text (slice reader): the text between the root's tags, decoded with the reader's decoder, is the
            // original inner content
            if source == 0 && !malformed {
                let inner = format!("{}<!--{}--><![CDATA[{}]]><?p {}?><e{n}/>{}", pt, pc, pd, pe, pf, n = name);
                let mut reader = Reader::from_reader(&bytes[..]);
                let mut verdict: Option<String> = None;
                for _ in 0..4 {
                    match reader.read_event() {
                        Ok(Event::Start(e)) => {
                            let nm = e.name().as_ref().to_vec();
                            let got = reader.read_text(quick_xml::name::QName(&nm));
                            if got.as_ref().map(|c| c.as_ref() != inner).unwrap_or(true) {
                                verdict = Some(format!("read_text gives {:?}, the original content is {:?}", got.map(|c| c.into_owned()).map_err(|e| e.to_string()), inner));
                            }
                            break;
                        }
                        Ok(Event::Eof) | Err(_) => break,
                        _ => {}
                    }
                }
                if let (Some(v), Some(e)) = (verdict, evs.iter_mut().find(|e| e.k == "Start")) {
                    e.k = v;
                }
            }
            let seen = if source >= 2 && first_piece != 0 { first_piece.min(bytes.len()) } else { bytes.len() };
            write_run(&mut f, "reader", &bytes[..seen.min(4)], malformed, &evs, Some(&orig), if malformed { None } else { Some(&truth) }, &mut events);
            traces += 1;
            nontriv += 1;
            if samples.len() < 3 && j == 0 && [WINDOWS_1251, SHIFT_JIS, UTF_8].contains(&enc) {
                samples.push(json!({"encoding": enc.name(), "document_utf8": doc_utf8, "bom": bom, "events": evs.iter().map(|e| format!("{}:{}", e.k, e.decoded.clone().unwrap_or_default())).collect::<Vec<_>>()}));
            }
            // Explicit (from_str) is not overridden by a declaration naming another encoding
            if j % 7 == 0 && enc != UTF_8 {
                let evs = read_all(doc_utf8.as_bytes(), 1, 0);
                write_run(&mut f, "str", &doc_utf8.as_bytes()[..4.min(doc_utf8.len())], false, &evs, Some(&orig), Some(&truth), &mut events);
                traces += 1;
            }
        }
    }
    f.flush().unwrap();
    json!({"traces": traces, "events": events, "nontrivial": nontriv, "samples": samples, "runs": traces, "comparisons": events})
}
