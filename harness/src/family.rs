//! The serde type family (DESIGN Appendix A): one Rust definition per documented
//! mapping row, mirrored by the schema registry in spec/SerdeModel.tla.  Values
//! travel between TLC and the harness as JSON (the family derives both serde
//! traits, so `serde_json` builds the Rust value from the spec's value).

use std::collections::BTreeMap;

use serde::{Deserialize, Serialize};
use serde_json::Value;

#[derive(Debug, Clone, PartialEq, Serialize, Deserialize)]
pub struct F01 {
    #[serde(rename = "@one")]
    pub one: String,
    #[serde(rename = "@two")]
    pub two: u32,
}

#[derive(Debug, Clone, PartialEq, Serialize, Deserialize)]
pub struct F02 {
    pub one: String,
    pub two: u32,
}

#[derive(Debug, Clone, PartialEq, Serialize, Deserialize)]
pub struct F03 {
    #[serde(rename = "@field")]
    pub attribute: String,
    pub field: String,
}

#[derive(Debug, Clone, PartialEq, Serialize, Deserialize)]
pub struct F04 {
    #[serde(rename = "@optional", skip_serializing_if = "Option::is_none", default)]
    pub optional: Option<String>,
}

#[derive(Debug, Clone, PartialEq, Serialize, Deserialize)]
pub struct F05 {
    #[serde(skip_serializing_if = "Option::is_none", default)]
    pub optional: Option<String>,
    #[serde(rename = "@attribute")]
    pub attribute: u32,
    pub non_optional: String,
}

#[derive(Debug, Clone, PartialEq, Serialize, Deserialize)]
pub enum Choice {
    One,
    Two,
    #[serde(rename = "$text")]
    Text(String),
}

#[derive(Debug, Clone, PartialEq, Serialize, Deserialize)]
pub struct F07 {
    #[serde(rename = "@field")]
    pub field: String,
    #[serde(rename = "$value")]
    pub any: Choice,
}

#[derive(Debug, Clone, PartialEq, Serialize, Deserialize)]
pub enum Choice2 {
    One { #[serde(rename = "@a")] a: String },
    Two(String),
    Three,
}

#[derive(Debug, Clone, PartialEq, Serialize, Deserialize)]
pub struct F08 {
    pub field: String,
    #[serde(rename = "$value")]
    pub any: Choice2,
}

#[derive(Debug, Clone, PartialEq, Serialize, Deserialize)]
pub struct Item {
    #[serde(rename = "@k")]
    pub k: String,
    #[serde(rename = "$text", default)]
    pub t: String,
}

#[derive(Debug, Clone, PartialEq, Serialize, Deserialize)]
pub struct F11 {
    #[serde(default)]
    pub item: Vec<Item>,
}

#[derive(Debug, Clone, PartialEq, Serialize, Deserialize)]
pub struct F15 {
    #[serde(rename = "@attribute")]
    pub attribute: String,
    #[serde(rename = "$value", default)]
    pub any: Vec<Choice>,
}

#[derive(Debug, Clone, PartialEq, Serialize, Deserialize)]
pub struct F16 {
    #[serde(rename = "@l", default)]
    pub l: Vec<u32>,
    #[serde(rename = "$text", default)]
    pub t: Vec<String>,
}

#[derive(Debug, Clone, PartialEq, Serialize, Deserialize)]
pub struct F17 {
    #[serde(rename = "$text", default)]
    pub t: String,
}

#[derive(Debug, Clone, PartialEq, Serialize, Deserialize)]
pub enum UnitEnum {
    Alpha,
    Beta,
}

#[derive(Debug, Clone, PartialEq, Serialize, Deserialize)]
pub struct F18 {
    pub field: UnitEnum,
    #[serde(rename = "@a")]
    pub a: UnitEnum,
}

#[derive(Debug, Clone, PartialEq, Serialize, Deserialize)]
pub struct Inner {
    #[serde(rename = "@attr")]
    pub attr: String,
    #[serde(skip_serializing_if = "Option::is_none", default)]
    pub c: Option<Box<Inner>>,
}

#[derive(Debug, Clone, PartialEq, Serialize, Deserialize)]
pub struct F19 {
    pub a: Inner,
    pub b: Inner,
}

#[derive(Debug, Clone, PartialEq, Serialize, Deserialize)]
pub struct F20 {
    pub m: BTreeMap<String, String>,
}

/// overlapped lists (C20)
#[derive(Debug, Clone, PartialEq, Serialize, Deserialize)]
pub struct F22 {
    #[serde(default)]
    pub a: Vec<String>,
    #[serde(default)]
    pub b: Vec<Item>,
    #[serde(rename = "@x")]
    pub x: u32,
    pub c: String,
}

#[derive(Debug, Clone, PartialEq, Serialize, Deserialize)]
pub struct Nest {
    #[serde(default)]
    pub a: Vec<String>,
}
/// overlapped lists with three list fields and a nested same-named child
#[derive(Debug, Clone, PartialEq, Serialize, Deserialize)]
pub struct F23 {
    #[serde(default)]
    pub a: Vec<String>,
    #[serde(default)]
    pub b: Vec<Nest>,
    #[serde(default)]
    pub d: Vec<u32>,
}

#[derive(Debug, Clone, PartialEq, Serialize, Deserialize)]
pub struct SelfNest {
    #[serde(default)]
    pub b: Vec<String>,
}
/// three overlapped lists; the items of `b` have children that are named `b` themselves
#[derive(Debug, Clone, PartialEq, Serialize, Deserialize)]
pub struct F29 {
    #[serde(default)]
    pub a: Vec<String>,
    #[serde(default)]
    pub b: Vec<SelfNest>,
    #[serde(default)]
    pub d: Vec<u32>,
}

/// two overlapped lists next to an optional element (which a document may also present as xsi:nil="true")
#[derive(Debug, Clone, PartialEq, Serialize, Deserialize)]
pub struct F32 {
    #[serde(default)]
    pub a: Vec<String>,
    #[serde(default)]
    pub b: Vec<String>,
    #[serde(default, skip_serializing_if = "Option::is_none")]
    pub o: Option<Item>,
}

/// the same one level down (so that an ancestor of the struct element can carry namespace declarations)
#[derive(Debug, Clone, PartialEq, Serialize, Deserialize)]
pub struct F33 {
    pub w: F32,
}

/// list items that collect their content in a `$value` list of their own, next to another list
#[derive(Debug, Clone, PartialEq, Serialize, Deserialize)]
pub struct Inner36 {
    #[serde(rename = "$value", default)]
    pub v: Vec<Choice>,
}
#[derive(Debug, Clone, PartialEq, Serialize, Deserialize)]
pub struct F36 {
    #[serde(default)]
    pub a: Vec<Inner36>,
    #[serde(default)]
    pub b: Vec<u32>,
}

/// two lists whose element names are prefixes of each other, next to a third one
#[derive(Debug, Clone, PartialEq, Serialize, Deserialize)]
pub struct F37 {
    #[serde(default)]
    pub a: Vec<String>,
    #[serde(default)]
    pub ab: Vec<String>,
    #[serde(default)]
    pub d: Vec<u32>,
}

/// list items that hold a struct-valued (non-list) field, between two other lists
#[derive(Debug, Clone, PartialEq, Serialize, Deserialize)]
pub struct Meta35 {
    pub x: String,
}
#[derive(Debug, Clone, PartialEq, Serialize, Deserialize)]
pub struct Holder35 {
    pub m: Meta35,
}
#[derive(Debug, Clone, PartialEq, Serialize, Deserialize)]
pub struct F35 {
    #[serde(default)]
    pub a: Vec<String>,
    #[serde(default)]
    pub b: Vec<Holder35>,
    #[serde(default)]
    pub d: Vec<u32>,
}

/// a fixed-size list (its visitor stops after the last item, before the parent's end tag) next to two growable lists
#[derive(Debug, Clone, PartialEq, Serialize, Deserialize)]
pub struct F34 {
    pub p: (u32, u32),
    #[serde(default)]
    pub x: Vec<u32>,
    #[serde(default)]
    pub q: Vec<u32>,
}

/// a string that serializes itself through `Serializer::collect_str` (the way chrono / url / uuid style types and
/// `serialize_with` helpers do); deserialized as a plain string
#[derive(Debug, Clone, PartialEq, Default, Deserialize)]
#[serde(transparent)]
pub struct Disp(pub String);
impl Serialize for Disp {
    fn serialize<S: serde::Serializer>(&self, s: S) -> Result<S::Ok, S::Error> {
        s.collect_str(&self.0)
    }
}
/// Display-serialized strings in attribute, attribute-list, element and list-item position
#[derive(Debug, Clone, PartialEq, Serialize, Deserialize)]
pub struct F30 {
    #[serde(rename = "@a")]
    pub a: Disp,
    #[serde(rename = "@l", default)]
    pub l: Vec<Disp>,
    pub e: Disp,
    #[serde(default)]
    pub item: Vec<Disp>,
}
/// ... and as the text content next to an attribute
#[derive(Debug, Clone, PartialEq, Serialize, Deserialize)]
pub struct F31 {
    #[serde(rename = "@k")]
    pub k: Disp,
    #[serde(rename = "$text", default)]
    pub t: Disp,
}

/// list of strings in an attribute (items escaped for the attribute quote) next to another attribute
#[derive(Debug, Clone, PartialEq, Serialize, Deserialize)]
pub struct F24 {
    #[serde(rename = "@items", default)]
    pub items: Vec<String>,
    #[serde(rename = "@one")]
    pub one: String,
}

#[derive(Debug, Clone, PartialEq, Serialize, Deserialize)]
pub enum Choice3 {
    One,
    Name(String),
    Num(u32),
    #[serde(rename = "$text")]
    Text(String),
}
/// mixed list whose element choices include newtype variants with primitive content
#[derive(Debug, Clone, PartialEq, Serialize, Deserialize)]
pub struct F25 {
    #[serde(rename = "$value", default)]
    pub any: Vec<Choice3>,
}

#[derive(Debug, Clone, PartialEq, Serialize, Deserialize)]
pub struct Node2 {
    #[serde(default)]
    pub a: Vec<String>,
    #[serde(default)]
    pub b: Vec<String>,
}
/// overlapped lists on two levels: items of the root list `a` have list fields of their own
#[derive(Debug, Clone, PartialEq, Serialize, Deserialize)]
pub struct F26 {
    #[serde(default)]
    pub a: Vec<Node2>,
    pub n: String,
    #[serde(default)]
    pub b: Vec<String>,
}

/// numeric extremes in attribute, list-item, element and text position
#[derive(Debug, Clone, PartialEq, Serialize, Deserialize)]
pub struct F27 {
    #[serde(rename = "@id")]
    pub id: u64,
    #[serde(rename = "@hashes", default)]
    pub hashes: Vec<u64>,
    pub size: u64,
    #[serde(rename = "$text")]
    pub t: i64,
}

/// bool / char / float in attribute, element, element-list and text position
#[derive(Debug, Clone, PartialEq, Serialize, Deserialize)]
pub struct F28 {
    #[serde(rename = "@flag")]
    pub flag_attr: bool,
    #[serde(rename = "@ratio")]
    pub ratio: f64,
    pub ch: char,
    #[serde(default)]
    pub flag: Vec<bool>,
    pub r: f64,
}

// ---- outside the round-trippable domain (C13 / C07 only)
#[derive(Debug, Clone, PartialEq, Serialize, Deserialize)]
pub struct H01 {
    pub m: BTreeMap<String, String>,
}
#[derive(Debug, Clone, PartialEq, Serialize, Deserialize)]
pub struct H02 {
    pub o: Option<String>,
    pub n: Vec<Vec<String>>,
}
#[derive(Debug, Clone, PartialEq, Serialize, Deserialize)]
pub enum Hostile {
    #[serde(rename = "<")]
    Lt,
    #[serde(rename = "a b")]
    Spaced,
    #[serde(rename = "")]
    Empty,
    #[serde(rename = "ok")]
    Fine,
}
#[derive(Debug, Clone, PartialEq, Serialize, Deserialize)]
pub struct H05 {
    #[serde(rename = "$value")]
    pub v: Hostile,
}
#[derive(Debug, Clone, PartialEq, Serialize, Deserialize)]
pub struct H06 {
    pub f: Hostile,
    #[serde(rename = "@a")]
    pub a: Hostile,
}

/// mixed content whose items may write nothing (an absent item between a text and an element)
#[derive(Debug, Clone, PartialEq, Serialize, Deserialize)]
pub struct H07 {
    #[serde(rename = "$value", default)]
    pub v: Vec<Option<Choice>>,
}

pub const TYPES: &[&str] = &["F01", "F02", "F03", "F04", "F05", "F07", "F08", "F11", "F15", "F16", "F17", "F18", "F19", "F20", "F22", "F23", "F24", "F25", "F26", "F27", "F28", "F29", "F30", "F31", "F32", "F33", "F34", "F35", "F36", "F37", "H01", "H02", "H05", "H06", "H07"];

/// Apply `$body` with `T` bound to the family type named `$name`.
#[macro_export]
macro_rules! with_type {
    ($name:expr, $T:ident, $body:block) => {
        match $name {
            "F01" => { type $T = $crate::family::F01; $body }
            "F02" => { type $T = $crate::family::F02; $body }
            "F03" => { type $T = $crate::family::F03; $body }
            "F04" => { type $T = $crate::family::F04; $body }
            "F05" => { type $T = $crate::family::F05; $body }
            "F07" => { type $T = $crate::family::F07; $body }
            "F08" => { type $T = $crate::family::F08; $body }
            "F11" => { type $T = $crate::family::F11; $body }
            "F15" => { type $T = $crate::family::F15; $body }
            "F16" => { type $T = $crate::family::F16; $body }
            "F17" => { type $T = $crate::family::F17; $body }
            "F18" => { type $T = $crate::family::F18; $body }
            "F19" => { type $T = $crate::family::F19; $body }
            "F20" => { type $T = $crate::family::F20; $body }
            "F22" => { type $T = $crate::family::F22; $body }
            "F23" => { type $T = $crate::family::F23; $body }
            "F24" => { type $T = $crate::family::F24; $body }
            "F25" => { type $T = $crate::family::F25; $body }
            "F26" => { type $T = $crate::family::F26; $body }
            "F29" => { type $T = $crate::family::F29; $body }
            "F35" => { type $T = $crate::family::F35; $body }
            "F36" => { type $T = $crate::family::F36; $body }
            "F37" => { type $T = $crate::family::F37; $body }
            "F30" => { type $T = $crate::family::F30; $body }
            "F31" => { type $T = $crate::family::F31; $body }
            "F32" => { type $T = $crate::family::F32; $body }
            "F33" => { type $T = $crate::family::F33; $body }
            "F34" => { type $T = $crate::family::F34; $body }
            "F27" => { type $T = $crate::family::F27; $body }
            "F28" => { type $T = $crate::family::F28; $body }
            "H01" => { type $T = $crate::family::H01; $body }
            "H02" => { type $T = $crate::family::H02; $body }
            "H05" => { type $T = $crate::family::H05; $body }
            "H06" => { type $T = $crate::family::H06; $body }
            "H07" => { type $T = $crate::family::H07; $body }
            other => panic!("unknown family type {other}"),
        }
    };
}

#[derive(Clone, Debug)]
pub struct SerOpts {
    /// 0 full, 1 partial, 2 minimal
    pub quote: u8,
    pub indent: Option<(char, usize)>,
    pub expand_empty: bool,
    pub root: Option<String>,
}

/// Serialize a family value given as JSON. Err(msg) = serializer error (or the JSON does not fit the type).
pub fn ser(ty: &str, v: &Value, o: &SerOpts) -> Result<String, String> {
    use quick_xml::se::{QuoteLevel, Serializer};
    with_type!(ty, T, {
        let val: T = serde_json::from_value(v.clone()).map_err(|e| format!("json: {e}"))?;
        let mut out = String::new();
        let mut s = Serializer::with_root(&mut out, o.root.as_deref()).map_err(|e| format!("se: {e}"))?;
        s.set_quote_level(match o.quote { 0 => QuoteLevel::Full, 1 => QuoteLevel::Partial, _ => QuoteLevel::Minimal });
        if let Some((c, n)) = o.indent {
            s.indent(c, n);
        }
        s.expand_empty_elements(o.expand_empty);
        val.serialize(s).map_err(|e| format!("se: {e}"))?;
        Ok(out)
    })
}

/// A sink that accepts `limit` bytes and then fails every write: `to_utf8_io_writer` / `Writer::write_serializable` must report
/// the failure (an error instead of a document), never return Ok with part of the document in the sink.
/// Returns (to_utf8_io_writer: ok?, bytes in the sink), (write_serializable: ok?, bytes in the sink).
pub fn ser_failing_sink(ty: &str, v: &Value, root: &str, limit: usize) -> Result<[(bool, Vec<u8>); 2], String> {
    struct Failing {
        out: Vec<u8>,
        limit: usize,
    }
    impl std::io::Write for Failing {
        fn write(&mut self, b: &[u8]) -> std::io::Result<usize> {
            if self.out.len() >= self.limit {
                return Err(std::io::Error::new(std::io::ErrorKind::Other, "verif: sink is full"));
            }
            let n = b.len().min(self.limit - self.out.len()).min(5).max(1);
            self.out.extend_from_slice(&b[..n]);
            Ok(n)
        }
        fn flush(&mut self) -> std::io::Result<()> {
            Ok(())
        }
    }
    with_type!(ty, T, {
        let val: T = serde_json::from_value(v.clone()).map_err(|e| format!("json: {e}"))?;
        let mut s1 = Failing { out: Vec::new(), limit };
        let r1 = quick_xml::se::to_utf8_io_writer(&mut s1, &val).is_ok();
        let mut w = quick_xml::Writer::new(Failing { out: Vec::new(), limit });
        let r2 = w.write_serializable(root, &val).is_ok();
        Ok([(r1, s1.out), (r2, w.into_inner().out)])
    })
}

/// The serializer's other entry points, writing into an `io::Write` sink that accepts at most `max` bytes per call:
/// (`to_string`, `to_utf8_io_writer`, `to_string_with_root(root)`, `Writer::write_serializable(root)`), each Ok(bytes) | Err.
pub fn ser_entry_points(ty: &str, v: &Value, root: &str, max: usize) -> [Result<Vec<u8>, String>; 4] {
    with_type!(ty, T, {
        let val: T = match serde_json::from_value(v.clone()) {
            Ok(x) => x,
            Err(e) => {
                let e = format!("json: {e}");
                return [Err(e.clone()), Err(e.clone()), Err(e.clone()), Err(e)];
            }
        };
        let a = quick_xml::se::to_string(&val).map(String::into_bytes).map_err(|e| format!("se: {e}"));
        // (to_writer / to_writer_with_root into a fmt::Write are checked against the same reference)
        let mut s1 = String::new();
        let a1 = quick_xml::se::to_writer(&mut s1, &val).map(|_| s1.clone().into_bytes()).map_err(|e| format!("se: {e}"));
        let same = |x: &Result<Vec<u8>, String>, y: &Result<Vec<u8>, String>| match (x, y) { (Ok(p), Ok(q)) => p == q, (Err(_), Err(_)) => true, _ => false };
        let a = if same(&a, &a1) { a } else { Ok(b"<<to_writer differs from to_string>>".to_vec()) };
        let mut sink = crate::env::ShortSink::new(max);
        let b = quick_xml::se::to_utf8_io_writer(&mut sink, &val).map(|_| sink.out.clone()).map_err(|e| format!("se: {e}"));
        let c = quick_xml::se::to_string_with_root(root, &val).map(String::into_bytes).map_err(|e| format!("se: {e}"));
        let mut s2 = String::new();
        let c1 = quick_xml::se::to_writer_with_root(&mut s2, root, &val).map(|_| s2.clone().into_bytes()).map_err(|e| format!("se: {e}"));
        let c = if same(&c, &c1) { c } else { Ok(b"<<to_writer_with_root differs from to_string_with_root>>".to_vec()) };
        let mut w = quick_xml::Writer::new(crate::env::ShortSink::new(max));
        let d = w.write_serializable(root, &val).map_err(|e| format!("se: {e}")).map(|_| w.into_inner().out);
        [a, b, c, d]
    })
}

/// Deserialize with from_str; Ok(value as JSON) | Err(error text)
pub fn de_str(ty: &str, xml: &str) -> Result<Value, String> {
    with_type!(ty, T, {
        let val: T = quick_xml::de::from_str(xml).map_err(|e| format!("{e:?}"))?;
        Ok(serde_json::to_value(&val).unwrap())
    })
}

/// Typed comparison: does `xml` deserialize (from_str) to exactly the value described by `v`?
/// Ok(true/false) | Err(deserializer error)
pub fn de_eq(ty: &str, xml: &str, v: &Value) -> Result<bool, String> {
    with_type!(ty, T, {
        let want: T = serde_json::from_value(v.clone()).map_err(|e| format!("json: {e}"))?;
        let got: T = quick_xml::de::from_str(xml).map_err(|e| format!("{e:?}"))?;
        Ok(got == want)
    })
}

/// Deserialize with from_reader over a chunked source
pub fn de_reader(ty: &str, xml: &[u8], cuts: &[usize]) -> Result<Value, String> {
    with_type!(ty, T, {
        let src = crate::env::Chunked::new(xml, crate::env::Plan { cuts: cuts.to_vec(), ..Default::default() });
        let val: T = quick_xml::de::from_reader(src).map_err(|e| format!("{e:?}"))?;
        Ok(serde_json::to_value(&val).unwrap())
    })
}

/// An entity resolver that records what `capture` is given (the deserializer's DOCTYPE path) and resolves like the default one
pub struct RecResolver(pub std::rc::Rc<std::cell::RefCell<Vec<Vec<u8>>>>, pub bool);
impl quick_xml::de::EntityResolver for RecResolver {
    type Error = std::convert::Infallible;
    fn capture(&mut self, d: quick_xml::events::BytesText) -> Result<(), Self::Error> {
        self.0.borrow_mut().push(d.to_vec());
        Ok(())
    }
    fn resolve(&self, e: &str) -> Option<&str> {
        // custom (Escape!CustomEnt): the predefined entities plus  a -> "A;&"
        if self.1 && e == "a" {
            Some("A;&")
        } else {
            quick_xml::escape::resolve_predefined_entity(e)
        }
    }
}

/// A String target through the resolver entry points with the CUSTOM resolver (string source, or a chunked reader)
pub fn de_string_custom(xml: &str, cuts: Option<&[usize]>) -> Result<String, String> {
    let cap = std::rc::Rc::new(std::cell::RefCell::new(Vec::new()));
    match cuts {
        None => {
            let mut de = quick_xml::de::Deserializer::from_str_with_resolver(xml, RecResolver(cap, true));
            String::deserialize(&mut de).map_err(|e| format!("{e:?}"))
        }
        Some(c) => {
            let src = crate::env::Chunked::new(xml.as_bytes(), crate::env::Plan { cuts: c.to_vec(), ..Default::default() });
            let mut de = quick_xml::de::Deserializer::with_resolver(src, RecResolver(cap, true));
            String::deserialize(&mut de).map_err(|e| format!("{e:?}"))
        }
    }
}

/// Deserialize through the resolver entry points (`from_str_with_resolver`, or `with_resolver` over a chunked reader);
/// returns the result and what the resolver was asked to capture
pub fn de_resolver(ty: &str, xml: &str, cuts: Option<&[usize]>) -> (Result<Value, String>, Vec<Vec<u8>>) {
    let cap = std::rc::Rc::new(std::cell::RefCell::new(Vec::new()));
    let r: Result<Value, String> = (|| {
        with_type!(ty, T, {
            let val: T = match cuts {
                None => {
                    let mut de = quick_xml::de::Deserializer::from_str_with_resolver(xml, RecResolver(cap.clone(), false));
                    T::deserialize(&mut de).map_err(|e| format!("{e:?}"))?
                }
                Some(c) => {
                    let src = crate::env::Chunked::new(xml.as_bytes(), crate::env::Plan { cuts: c.to_vec(), ..Default::default() });
                    let mut de = quick_xml::de::Deserializer::with_resolver(src, RecResolver(cap.clone(), false));
                    T::deserialize(&mut de).map_err(|e| format!("{e:?}"))?
                }
            };
            Ok(serde_json::to_value(&val).unwrap())
        })
    })();
    let got = cap.borrow().clone();
    (r, got)
}

/// Deserialize with from_reader over a chunked source that answers `Interrupted` once before EVERY piece
pub fn de_reader_intr(ty: &str, xml: &[u8], cuts: &[usize]) -> Result<Value, String> {
    with_type!(ty, T, {
        let interrupts: Vec<(usize, usize)> = (0..xml.len() + 2).map(|i| (i, 1)).collect();
        let src = crate::env::Chunked::new(xml, crate::env::Plan { cuts: cuts.to_vec(), interrupts, ..Default::default() });
        let val: T = quick_xml::de::from_reader(src).map_err(|e| format!("{e:?}"))?;
        Ok(serde_json::to_value(&val).unwrap())
    })
}

/// Deserialize with an event buffer limit (overlapped lists)
pub fn de_limit(ty: &str, xml: &str, limit: Option<usize>) -> Result<Value, String> {
    with_type!(ty, T, {
        let mut de = quick_xml::de::Deserializer::from_str(xml);
        #[cfg(feature = "ol")]
        de.event_buffer_size(limit.and_then(std::num::NonZeroUsize::new));
        let _ = limit;
        let val: T = T::deserialize(&mut de).map_err(|e| format!("{e:?}"))?;
        Ok(serde_json::to_value(&val).unwrap())
    })
}


/// A schema-less target: records what the deserializer hands to `deserialize_any` - maps with their
/// keys in order (attribute keys sorted, their order is presentation) and strings. It observes the
/// whole DeEvent stream (names, attributes, merged text) without any hook in quick-xml.
#[derive(Debug, Clone, PartialEq)]
pub enum AnyNode {
    Text(String),
    Map(Vec<(String, AnyNode)>),
    Seq(Vec<AnyNode>),
    Unit,
}

impl<'de> Deserialize<'de> for AnyNode {
    fn deserialize<D: serde::Deserializer<'de>>(d: D) -> Result<Self, D::Error> {
        struct V;
        impl<'de> serde::de::Visitor<'de> for V {
            type Value = AnyNode;
            fn expecting(&self, f: &mut std::fmt::Formatter) -> std::fmt::Result {
                f.write_str("anything")
            }
            fn visit_str<E: serde::de::Error>(self, v: &str) -> Result<AnyNode, E> {
                Ok(AnyNode::Text(v.to_string()))
            }
            fn visit_string<E: serde::de::Error>(self, v: String) -> Result<AnyNode, E> {
                Ok(AnyNode::Text(v))
            }
            fn visit_unit<E: serde::de::Error>(self) -> Result<AnyNode, E> {
                Ok(AnyNode::Unit)
            }
            fn visit_map<A: serde::de::MapAccess<'de>>(self, mut m: A) -> Result<AnyNode, A::Error> {
                let mut attrs = Vec::new();
                let mut rest = Vec::new();
                while let Some(k) = m.next_key::<String>()? {
                    let v = m.next_value::<AnyNode>()?;
                    if k.starts_with('@') {
                        attrs.push((k, v));
                    } else {
                        rest.push((k, v));
                    }
                }
                attrs.sort_by(|a, b| a.0.cmp(&b.0));
                attrs.extend(rest);
                Ok(AnyNode::Map(attrs))
            }
            fn visit_seq<A: serde::de::SeqAccess<'de>>(self, mut s: A) -> Result<AnyNode, A::Error> {
                let mut v = Vec::new();
                while let Some(x) = s.next_element::<AnyNode>()? {
                    v.push(x);
                }
                Ok(AnyNode::Seq(v))
            }
        }
        d.deserialize_any(V)
    }
}

pub fn de_any(xml: &str) -> Result<AnyNode, String> {
    quick_xml::de::from_str::<AnyNode>(xml).map_err(|e| format!("{e:?}"))
}
