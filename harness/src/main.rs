//! qxv - conformance harness binding the TLA+ specification in /verif/spec to
//! the real quick-xml code.  Sub-commands are invoked by /verif/check.
mod attrs;
mod de_leg;
mod dynser;
#[cfg(feature = "enc")]
mod enc;
mod env;
mod esc;
mod family;
mod gen;
mod ns;
mod obs;
mod record_reader;
mod reader;
mod replay_reader;
mod serde_leg;
mod writer;

/// which build of quick-xml this binary is linked against (recorded in replay files)
pub const FLAVOUR: &str = if cfg!(feature = "enc") { "enc" } else if cfg!(feature = "ol") { "noenc" } else { "nool" };

use std::collections::HashMap;

fn args_map(args: &[String]) -> HashMap<String, String> {
    let mut m = HashMap::new();
    let mut i = 0;
    while i < args.len() {
        if let Some(k) = args[i].strip_prefix("--") {
            let v = if i + 1 < args.len() && !args[i + 1].starts_with("--") {
                i += 1;
                args[i].clone()
            } else {
                "1".to_string()
            };
            m.insert(k.to_string(), v);
        }
        i += 1;
    }
    m
}

fn main() {
    // a panic in code under test is data, not noise
    std::panic::set_hook(Box::new(|_| {}));
    let args: Vec<String> = std::env::args().collect();
    if args.len() < 2 {
        eprintln!("usage: qxv <command> [--key value]...");
        std::process::exit(2);
    }
    let m = args_map(&args[2..]);
    let get = |k: &str, d: &str| m.get(k).cloned().unwrap_or_else(|| d.to_string());
    let seed: u64 = get("seed", "1").parse().unwrap_or(1);
    match args[1].as_str() {
        "reader-replay" => {
            let opts = replay_reader::Opts {
                file: get("file", ""),
                mode: get("mode", "slice"),
                prop: get("prop", "C01"),
                out_dir: get("out-dir", "evidence/replay"),
                seed,
                max_all_cuts: get("max-all-cuts", "10").parse().unwrap(),
                pair_cuts: get("pair-cuts", "0").parse().unwrap(),
                all_kinds: get("all-kinds", "0") == "1",
                known_dev: get("known-dev", "C16-1"),
                stride: get("stride", "1").parse().unwrap(),
            };
            let s = replay_reader::run(&opts);
            println!("SUMMARY {}", serde_json::to_string(&s).unwrap());
        }
        "reader-record" => {
            let o = record_reader::Opts {
                out: get("out", "work/trace.ndjson"),
                seed,
                n: get("n", "100").parse().unwrap(),
                kinds: get("kinds", "doc,mut,rand"),
                script: get("script", "plain"),
                max_len: get("max-len", "400").parse().unwrap(),
                enc: cfg!(feature = "enc"),
                sources: get("sources", "all"),
            };
            let s = record_reader::run(&o);
            println!("SUMMARY {}", serde_json::to_string(&s).unwrap());
        }
        "attrs-replay" => {
            let s = attrs::replay(&get("file", ""), &get("prop", "C11"), &get("out-dir", "evidence/replay"));
            println!("SUMMARY {}", serde_json::to_string(&s).unwrap());
        }
        "attrs-record" => {
            let s = attrs::record(&get("out", "work/attrs.ndjson"), seed, get("n", "1000").parse().unwrap());
            println!("SUMMARY {}", serde_json::to_string(&s).unwrap());
        }
        "attrs-rerun" => {
            let still = attrs::rerun(&get("file", ""));
            println!("{}", if still { "STILL-FAILS" } else { "PASSES-NOW" });
            std::process::exit(if still { 1 } else { 0 });
        }
        "escape-replay" => {
            let s = esc::replay(&get("file", ""), &get("prop", "C10"), &get("out-dir", "evidence/replay"));
            println!("SUMMARY {}", serde_json::to_string(&s).unwrap());
        }
        "escape-record" => {
            let s = esc::record(&get("out", "work/esc.ndjson"), seed, get("n", "1000").parse().unwrap(), get("sweep", "1") == "1");
            println!("SUMMARY {}", serde_json::to_string(&s).unwrap());
        }
        "escape-rerun" => {
            let still = esc::rerun(&get("file", ""));
            println!("{}", if still { "STILL-FAILS" } else { "PASSES-NOW" });
            std::process::exit(if still { 1 } else { 0 });
        }
        "ns-replay" => {
            let s = ns::replay(&get("file", ""), &get("prop", "C05"), &get("out-dir", "evidence/replay"), &get("known-dev", "C05-1"));
            println!("SUMMARY {}", serde_json::to_string(&s).unwrap());
        }
        "ns-record" => {
            let s = ns::record(&get("out", "work/ns.ndjson"), seed, get("n", "300").parse().unwrap());
            println!("SUMMARY {}", serde_json::to_string(&s).unwrap());
        }
        "ns-rerun" => {
            let still = ns::rerun(&get("file", ""));
            println!("{}", if still { "STILL-FAILS" } else { "PASSES-NOW" });
            std::process::exit(if still { 1 } else { 0 });
        }
        "writer-replay" => {
            let s = writer::replay(&get("file", ""), &get("prop", "C09"), &get("out-dir", "evidence/replay"));
            println!("SUMMARY {}", serde_json::to_string(&s).unwrap());
        }
        "writer-record" => {
            let s = writer::record(&get("out", "work/writer.ndjson"), seed, get("n", "300").parse().unwrap());
            println!("SUMMARY {}", serde_json::to_string(&s).unwrap());
        }
        "writer-rerun" => {
            let still = writer::rerun(&get("file", ""));
            println!("{}", if still { "STILL-FAILS" } else { "PASSES-NOW" });
            std::process::exit(if still { 1 } else { 0 });
        }
        #[cfg(feature = "enc")]
        "enc-record" => {
            let s = enc::record(&get("out", "work/enc.ndjson"), seed, get("n", "10").parse().unwrap());
            println!("SUMMARY {}", serde_json::to_string(&s).unwrap());
        }
        "serde-probe" => {
            let v: serde_json::Value = serde_json::from_str(&get("json", "null")).unwrap();
            for (q, ind, ee) in [(0u8, None, false), (2, Some((' ', 2)), true)] {
                let o = family::SerOpts { quote: q, indent: ind, expand_empty: ee, root: m.get("root").cloned() };
                match family::ser(&get("ty", "F01"), &v, &o) {
                    Ok(x) => println!("{:?}\n  -> {:?}", x, family::de_str(&get("ty", "F01"), &x)),
                    Err(e) => println!("ERR {e}"),
                }
            }
        }
        "serde-replay" => {
            let s = serde_leg::replay(&serde_leg::Opts { file: get("file", ""), prop: get("prop", "C06"), out_dir: get("out-dir", "evidence/replay"), aspect: get("aspect", "c06"), seed });
            println!("SUMMARY {}", serde_json::to_string(&s).unwrap());
        }
        "serde-record" => {
            let s = serde_leg::record(&get("file", ""), &get("out", "work/serde.ndjson"), seed, get("every", "3").parse().unwrap());
            println!("SUMMARY {}", serde_json::to_string(&s).unwrap());
        }
        "serde-rerun" => {
            let still = serde_leg::rerun(&get("file", ""));
            println!("{}", if still { "STILL-FAILS" } else { "PASSES-NOW" });
            std::process::exit(if still { 1 } else { 0 });
        }
        "de-replay" => {
            de_leg::load_schemas(&get("schemas", ""), get("max-schemas", "40").parse().unwrap());
            let s = de_leg::replay(&de_leg::Opts { file: get("file", ""), prop: get("prop", "C07"), out_dir: get("out-dir", "evidence/replay"), mode: get("mode", "soup"), seed, mutate: get("mutate", "0") == "1",
                sizes: get("sizes", "1,3").split(',').filter_map(|x| x.parse().ok()).collect(), stride: get("stride", "1").parse().unwrap() });
            println!("SUMMARY {}", serde_json::to_string(&s).unwrap());
        }
        "de-mutate" => {
            de_leg::load_schemas(&get("schemas", ""), get("max-schemas", "40").parse().unwrap());
            let s = de_leg::mutate_run(&get("file", ""), &get("prop", "C07"), &get("out-dir", "evidence/replay"), seed, get("per-doc", "5").parse().unwrap());
            println!("SUMMARY {}", serde_json::to_string(&s).unwrap());
        }
        "de-rerun" => {
            let still = de_leg::rerun(&get("file", ""));
            println!("{}", if still { "STILL-FAILS" } else { "PASSES-NOW" });
            std::process::exit(if still { 1 } else { 0 });
        }
        "source-record" => {
            let s = record_reader::record_source(&get("out", "work/source.ndjson"), seed, get("n", "200").parse().unwrap(), get("max-len", "200").parse().unwrap());
            println!("SUMMARY {}", serde_json::to_string(&s).unwrap());
        }
        "de-probe" => {
            // qxv de-probe --ty F32 --xml '<F32>...</F32>' : what from_str gives for one document
            println!("{:?}", family::de_str(&get("ty", "F01"), &get("xml", "<a/>")));
        }
        "any-probe" => {
            println!("{:?}", family::de_any(&get("xml", "<a/>")));
        }
        "reader-rerun" => {
            let still = replay_reader::rerun(&get("file", ""));
            println!("{}", if still { "STILL-FAILS" } else { "PASSES-NOW" });
            std::process::exit(if still { 1 } else { 0 });
        }
        c => {
            eprintln!("unknown command {c}");
            std::process::exit(2);
        }
    }
}
