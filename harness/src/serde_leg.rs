//! C06 / C13 / C14 / C19(serde): TLC-generated family values with the model's
//! expected logical document; real serializer and deserializer exercised
//! under every option combination.

use std::io::{BufRead, Write};
use std::panic::{catch_unwind, AssertUnwindSafe};

use rand::rngs::StdRng;
use rand::{Rng, SeedableRng};
use serde_json::{json, Map, Value};

use crate::family::{de_eq, de_reader, de_str, ser, SerOpts};
use crate::writer::read_back;

fn bytes(v: &Value) -> Vec<u8> {
    v.as_array().map(|a| a.iter().map(|x| x.as_u64().unwrap() as u8).collect()).unwrap_or_default()
}
fn text(v: &Value) -> String {
    String::from_utf8(bytes(v)).expect("utf8 in value")
}

/// tagged value of the spec -> plain JSON for serde_json::from_value
pub fn plain(v: &Value) -> Value {
    let o = v.as_object().expect("tagged value");
    if let Some(s) = o.get("s") {
        return Value::String(text(s));
    }
    if let Some(n) = o.get("n") {
        let s = text(n);
        return if s.starts_with('-') { json!(s.parse::<i64>().unwrap()) } else { json!(s.parse::<u64>().unwrap()) };
    }
    if let Some(b) = o.get("b") {
        return Value::Bool(b.as_u64() == Some(1));
    }
    if let Some(f) = o.get("f") {
        return json!(text(f).parse::<f64>().unwrap());
    }
    if let Some(u) = o.get("u") {
        return Value::String(text(u));
    }
    if o.contains_key("z") {
        return Value::Null;
    }
    if let Some(a) = o.get("a") {
        return Value::Array(a.as_array().unwrap().iter().map(plain).collect());
    }
    if let Some(name) = o.get("v") {
        let mut m = Map::new();
        m.insert(text(name), plain(&o["x"]));
        return Value::Object(m);
    }
    if let Some(ps) = o.get("o") {
        let mut m = Map::new();
        for p in ps.as_array().unwrap() {
            m.insert(text(&p[0]), plain(&p[1]));
        }
        return Value::Object(m);
    }
    panic!("unknown tagged value {v}");
}

/// `<x/>` == `<x></x>`; whitespace-only text dropped when the output was indented
fn normalize(l: Vec<Value>, drop_ws: bool) -> Vec<Value> {
    let mut out = Vec::new();
    for it in l {
        let k = it[0].as_str().unwrap();
        if k == "Empty" {
            out.push(json!(["Start", it[1], it[2]]));
            out.push(json!(["End", it[1], []]));
        } else if k == "Text" && drop_ws && bytes(&it[1]).iter().all(|c| matches!(c, b' ' | b'\t' | b'\r' | b'\n')) {
        } else {
            out.push(it);
        }
    }
    out
}

/// attribute lists of every start tag iterate without error, names are XML names, elements properly nested
fn well_formed(doc: &str) -> Result<(), String> {
    use quick_xml::events::Event;
    let mut r = quick_xml::Reader::from_str(doc);
    let mut depth = 0i64;
    // C13: "every element or attribute name that reaches the output is a legal XML name"
    // (ASCII subset of NameStartChar/NameChar; any non-ASCII character is accepted here)
    fn legal(n: &[u8]) -> bool {
        let start = |b: u8| b.is_ascii_alphabetic() || b == b'_' || b == b':' || b >= 0x80;
        !n.is_empty() && start(n[0]) && n.iter().all(|&b| start(b) || b.is_ascii_digit() || b == b'-' || b == b'.')
    }
    loop {
        match r.read_event() {
            Err(e) => return Err(format!("reader error {e:?}")),
            Ok(Event::Eof) => break,
            Ok(ev) => match &ev {
                Event::Start(e) | Event::Empty(e) => {
                    if matches!(ev, Event::Start(_)) {
                        depth += 1;
                    }
                    if !legal(e.name().as_ref()) {
                        return Err(format!("illegal element name {:?}", String::from_utf8_lossy(e.name().as_ref())));
                    }
                    for a in e.attributes() {
                        let a = a.map_err(|e| format!("attribute error {e:?}"))?;
                        if !legal(a.key.as_ref()) {
                            return Err(format!("illegal attribute name {:?}", String::from_utf8_lossy(a.key.as_ref())));
                        }
                    }
                }
                Event::End(_) => depth -= 1,
                _ => {}
            },
        }
    }
    if depth != 0 {
        return Err("unbalanced".into());
    }
    Ok(())
}

pub struct Opts {
    pub file: String,
    pub prop: String,
    pub out_dir: String,
    /// which aspects are violations for this property: c06 | c13 | c14 | c19
    pub aspect: String,
    pub seed: u64,
}

pub fn replay(o: &Opts) -> Value {
    let f = std::io::BufReader::new(std::fs::File::open(&o.file).expect("behaviour file"));
    let mut rng = StdRng::seed_from_u64(o.seed);
    let (mut n, mut runs, mut cmp, mut viol, mut nontriv, mut drift) = (0u64, 0u64, 0u64, 0u64, 0u64, 0u64);
    let mut known_c14_1 = 0u64;
    let mut files: Vec<String> = Vec::new();
    let mut samples = Vec::new();
    for line in f.lines() {
        let line = line.unwrap();
        if line.trim().is_empty() {
            continue;
        }
        let b: Value = serde_json::from_str(&line).expect("json");
        n += 1;
        let ty = b["ty"].as_str().unwrap();
        // a behaviour of MC_Schema carries its type as data (`schema`): the schema-driven serde client is used instead of
        // the hand-written family type of that name, and values stay in the tagged form of the specification
        let dynty: Option<crate::dynser::Ty> = b.get("schema").map(crate::dynser::Ty::parse);
        let v = if dynty.is_some() { b["v"].clone() } else { plain(&b["v"]) };
        let ser = |ty: &str, v: &Value, so: &SerOpts| -> Result<String, String> {
            match &dynty {
                Some(t) => crate::dynser::ser(t, v, so.root.as_deref().unwrap_or("R"), &crate::dynser::SerOpts { quote: so.quote, indent: so.indent, expand_empty: so.expand_empty }),
                None => crate::family::ser(ty, v, so),
            }
        };
        let de_str = |ty: &str, doc: &str| -> Result<Value, String> {
            match &dynty {
                Some(t) => crate::dynser::de_str(t, doc),
                None => crate::family::de_str(ty, doc),
            }
        };
        let de_eq = |ty: &str, doc: &str, v: &Value| -> Result<bool, String> {
            match &dynty {
                Some(t) => crate::dynser::de_str(t, doc).map(|x| x == *v),
                None => crate::family::de_eq(ty, doc, v),
            }
        };
        let de_reader = |ty: &str, doc: &[u8], cuts: &[usize]| -> Result<Value, String> {
            match &dynty {
                Some(t) => crate::dynser::de_reader(t, doc, cuts),
                None => crate::family::de_reader(ty, doc, cuts),
            }
        };
        let rt = b["rt"] == 1;
        // (MC_Schema: indentation is meaningful for every generated value, the round trip only on the documented domain)
        let rtrip = b.get("rtrip").map_or(true, |x| x == 1);
        let root_s = text(&b["root"]);
        let root = if root_s == ty || b.get("schema").is_some() { None } else { Some(root_s.clone()) };
        let model_fail = b["fail"] == 1;
        let tree: Vec<Value> = b["tree"].as_array().cloned().unwrap_or_default();
        let mut bad: Option<(String, Value)> = None;
        let mut note = |bad: &mut Option<(String, Value)>, aspects: &[&str], what: &str, detail: Value| {
            if aspects.contains(&o.aspect.as_str()) && bad.is_none() {
                *bad = Some((what.to_string(), detail));
            }
        };
        let res = catch_unwind(AssertUnwindSafe(|| {
            let mut local_bad: Option<(String, Value)> = None;
            let (mut runs, mut cmp, mut drift, mut c14_1) = (0u64, 0u64, 0u64, 0u64);
            let mut plain_de: Option<Result<Value, String>> = None;
            // ---- the entry points that write into an io::Write sink deliver the same bytes as the String ones, whatever
            // number of bytes the sink accepts per call
            if ["c06", "c13"].contains(&o.aspect.as_str()) && dynty.is_none() {
                let root_name = root.clone().unwrap_or_else(|| "root".to_string());
                for max in [1usize, 7] {
                    let [a, b, c, d] = crate::family::ser_entry_points(ty, &v, &root_name, max);
                    runs += 2;
                    cmp += 2;
                    let same = |x: &Result<Vec<u8>, String>, y: &Result<Vec<u8>, String>| match (x, y) {
                        (Ok(p), Ok(q)) => p == q,
                        (Err(_), Err(_)) => true,
                        _ => false,
                    };
                    if !same(&a, &b) {
                        note(&mut local_bad, &["c06", "c13"], "to_utf8_io_writer-differs-from-to_string", json!({"max_bytes_per_write": max,
                            "to_string": a.as_ref().map(|x| String::from_utf8_lossy(x).into_owned()), "to_utf8_io_writer": b.as_ref().map(|x| String::from_utf8_lossy(x).into_owned())}));
                    }
                    if !same(&c, &d) {
                        note(&mut local_bad, &["c06", "c13"], "write_serializable-differs-from-to_string_with_root", json!({"max_bytes_per_write": max, "root": root_name,
                            "to_string_with_root": c.as_ref().map(|x| String::from_utf8_lossy(x).into_owned()), "write_serializable": d.as_ref().map(|x| String::from_utf8_lossy(x).into_owned())}));
                    }
                }
            }
            // ---- a sink that fails after `limit` bytes: an error, or the complete document - never Ok with a part of it
            if o.aspect == "c13" && dynty.is_none() {
                let root_name = root.clone().unwrap_or_else(|| "root".to_string());
                let [full_a, _, full_c, _] = crate::family::ser_entry_points(ty, &v, &root_name, 64);
                for (which, full) in [(0usize, &full_a), (1usize, &full_c)] {
                    let Ok(full) = full else { continue };
                    for limit in [0usize, 1, full.len() / 2, full.len().saturating_sub(1)] {
                        if limit >= full.len() {
                            continue;
                        }
                        if let Ok(rs) = crate::family::ser_failing_sink(ty, &v, &root_name, limit) {
                            runs += 1;
                            cmp += 1;
                            let (ok, out) = &rs[which];
                            if *ok && out != full {
                                note(&mut local_bad, &["c13"], "sink-failure-swallowed: Ok although the sink holds only a part of the document",
                                    json!({"entry": if which == 0 { "to_utf8_io_writer" } else { "Writer::write_serializable" }, "sink_accepts_bytes": limit,
                                           "in_the_sink": String::from_utf8_lossy(out), "document": String::from_utf8_lossy(full)}));
                            }
                        }
                    }
                }
            }
            // ---- the root element named by the TYPE (no explicit root tag): the same verdict and the same bytes as with that
            // name given explicitly (F01 with arbitrary names; the struct is rebuilt as a type given as data)
            if ty == "F01" && dynty.is_none() && o.aspect == "c13" {
                if let Some(name) = &root {
                    let f01 = crate::dynser::Ty::Struct(vec![
                        crate::dynser::Field { jkey: "@one".into(), ty: crate::dynser::Ty::Str },
                        crate::dynser::Field { jkey: "@two".into(), ty: crate::dynser::Ty::Num },
                    ]);
                    let by_type = crate::dynser::ser_named(&f01, &b["v"], name);
                    let explicit = ser(ty, &v, &SerOpts { quote: 1, indent: None, expand_empty: false, root: root.clone() });
                    runs += 1;
                    cmp += 1;
                    let same = match (&by_type, &explicit) {
                        (Ok(p), Ok(q)) => p == q,
                        (Err(_), Err(_)) => true,
                        _ => false,
                    };
                    if !same {
                        note(&mut local_bad, &["c13"], "type-name-as-root-differs-from-explicit-root", json!({"name": name, "by_type_name": format!("{by_type:?}"), "explicit_root": format!("{explicit:?}")}));
                    }
                }
            }
            for quote in 0..3u8 {
                // (the last one: an indent wider than the serializer's initial indent cache of 128 bytes)
                for indent in [None, Some((' ', 2)), Some(('\t', 1)), Some((' ', 131))] {
                    for expand in [false, true] {
                        if !rt && indent.is_some() {
                            continue; // hostile strings may be whitespace-only: indentation comparison not meaningful
                        }
                        if matches!(indent, Some((_, 131))) && (quote != 0 || expand) {
                            continue;
                        }
                        let so = SerOpts { quote, indent, expand_empty: expand, root: root.clone() };
                        let out = ser(ty, &v, &so);
                        runs += 1;
                        match (&out, model_fail) {
                            (Err(e), false) if e.starts_with("json:") => panic!("family and schema registry disagree: {e} for {ty} {v}"),
                            (Err(e), false) => {
                                if rt && rtrip {
                                    note(&mut local_bad, &["c06"], "serialization-failed-on-the-domain", json!({"error": e, "opts": format!("{so:?}")}));
                                } else {
                                    drift += 1; // C13 allows an error instead of a document
                                }
                                continue;
                            }
                            (Ok(_), true) => drift += 1, // the model rejects, the code emits something: must still be well-formed (below)
                            (Err(_), true) => continue,
                            _ => {}
                        }
                        let doc = out.unwrap();
                        cmp += 1;
                        // ---- C13: well-formed, names legal, data carried unchanged, no injected markup
                        if let Err(e) = well_formed(&doc) {
                            note(&mut local_bad, &["c13", "c06"], "output-not-well-formed", json!({"doc": doc, "error": e}));
                            continue;
                        }
                        match read_back(doc.as_bytes()) {
                            Err(e) => note(&mut local_bad, &["c13", "c06"], "output-not-readable", json!({"doc": doc, "error": e})),
                            Ok(l) => {
                                let l = normalize(l, indent.is_some());
                                if !model_fail && l != tree {
                                    note(&mut local_bad, if indent.is_some() { &["c13", "c19"] } else { &["c13"] }, "document-differs-from-the-data", json!({"doc": doc, "read_back": l}));
                                }
                            }
                        }
                        // ---- C06 / C19: deserializing gives the value back, whatever the options
                        if rt && rtrip && !model_fail && root.is_none() && !ty.starts_with('H') {
                            let d = de_str(ty, &doc);
                            runs += 1;
                            match de_eq(ty, &doc, &v) {
                                Ok(true) => {}
                                _ => note(&mut local_bad, &["c06", "c19"], "round-trip", json!({"doc": doc, "deserialized": format!("{d:?}"), "opts": format!("{so:?}")})),
                            }
                            if indent.is_none() && !expand && quote == 0 {
                                plain_de = Some(d.clone());
                            }
                            // ---- C14: from_reader over any chunking == from_str, for the document as serialized and for
                            // equivalent UTF-8 presentations of it: with a byte-order mark, with an XML declaration naming
                            // UTF-8, and with a namespace prefix on every element name
                            if o.aspect == "c14" {
                                let variants: Vec<(&str, String)> = vec![
                                    ("plain", doc.clone()),
                                    ("bom", format!("\u{feff}{doc}")),
                                    ("decl", format!("<?xml version=\"1.0\" encoding=\"UTF-8\"?>{doc}")),
                                    ("bom+decl", format!("\u{feff}<?xml version='1.0' encoding='utf-8' ?>\n{doc}")),
                                    ("prefixed", prefixed(&doc)),
                                    ("ns-scopes", ns_scopes(&doc)),
                                    ("nil-quoted", nil_everywhere(&doc, true)),
                                    ("nil-unquoted", nil_everywhere(&doc, false)),
                                    ("mixed-skip", mixed_skip(&doc, false)),
                                    ("mixed-skip2", mixed_skip(&doc, true)),
                                    // an element the target skips whose content is NOT well-formed (a wrong end tag, counts balanced)
                                    ("illformed-skip", insert_first_child(&doc, "<zz>t<y><q/></w></zz>")),
                                    ("illformed-skip2", insert_first_child(&doc, "<zz><zz></y></zz>")),
                                ];
                                for (vname, vdoc) in &variants {
                                    let d = de_str(ty, vdoc);
                                    runs += 1;
                                    let n = vdoc.len();
                                    let mut cutsets: Vec<Vec<usize>> = vec![vec![1; n + 1], vec![2; n / 2 + 1], vec![3; n / 3 + 1], vec![7; n / 7 + 1], vec![n.max(1)]];
                                    cutsets.push(crate::gen::random_cuts(&mut rng, n));
                                    // "any reader": one that answers `Interrupted` before every piece delivers the same bytes
                                    if *vname == "plain" && dynty.is_none() {
                                        for sz in [1usize, 2, 5] {
                                            let r = crate::family::de_reader_intr(ty, vdoc.as_bytes(), &vec![sz; n / sz + 1]);
                                            runs += 1;
                                            cmp += 1;
                                            let same = match (&d, &r) {
                                                (Ok(a), Ok(b)) => a == b,
                                                (Err(_), Err(_)) => true,
                                                _ => false,
                                            };
                                            if !same {
                                                note(&mut local_bad, &["c14"], "from_str-vs-from_reader(interrupted before every piece)", json!({"doc": vdoc, "piece_size": sz, "str": format!("{d:?}"), "reader": format!("{r:?}")}));
                                            }
                                        }
                                    }
                                    for cuts in cutsets {
                                        let r = de_reader(ty, vdoc.as_bytes(), &cuts);
                                        runs += 1;
                                        cmp += 1;
                                        let same = match (&d, &r) {
                                            (Ok(a), Ok(b)) => a == b,
                                            (Err(_), Err(_)) => true,
                                            _ => false,
                                        };
                                        if !same {
                                            // known finding C14-1: the buffered reader looks for the byte-order mark only in the
                                            // first piece; a first piece shorter than the mark leaves it in the stream
                                            if vname.starts_with("bom") && cuts.first().map_or(false, |&c| c < 3) {
                                                c14_1 += 1;
                                                continue;
                                            }
                                            note(&mut local_bad, &["c14"], "from_str-vs-from_reader", json!({"variant": vname, "doc": vdoc, "cuts": cuts, "str": format!("{d:?}"), "reader": format!("{r:?}")}));
                                        }
                                    }
                                }
                            }
                        }
                    }
                }
            }
            let _ = plain_de;
            (local_bad, runs, cmp, drift, c14_1)
        }));
        match res {
            Ok((lb, r, c, d, k)) => {
                bad = lb;
                runs += r;
                cmp += c;
                drift += d;
                known_c14_1 += k;
            }
            Err(p) => {
                let msg = p.downcast_ref::<String>().cloned().unwrap_or_default();
                if msg.starts_with("family and schema registry disagree") {
                    eprintln!("{msg}");
                    std::process::exit(2);
                }
                bad = Some(("panic".into(), json!({})));
            }
        }
        if tree.len() > 4 {
            nontriv += 1;
        }
        if samples.len() < 3 && tree.len() > 4 && n % 97 == 0 {
            samples.push(json!({"type": ty, "value": v, "document": ser(ty, &v, &SerOpts { quote: 0, indent: None, expand_empty: false, root: None }).ok()}));
        }
        if let Some((what, detail)) = bad {
            viol += 1;
            if files.len() < 5 {
                let path = format!("{}/{}-{}.json", o.out_dir, o.prop, files.len());
                std::fs::create_dir_all(&o.out_dir).ok();
                std::fs::write(&path, serde_json::to_string_pretty(&json!({"property": o.prop, "kind": "serde-replay", "aspect": o.aspect, "what": what, "detail": detail,
                    "type": ty, "value": v, "behaviour": b})).unwrap()).ok();
                println!("VIOLATION property={} replay={}", o.prop, path);
                files.push(path);
            }
        }
    }
    // deterministic: a Serialize implementation that drives the split key / value protocol of maps WRONGLY (a value without a
    // key): the serializer answers with an error (or a well-formed document), it does not panic
    if o.aspect == "c13" {
        let (r3, bad3) = misbehaving_map_clients();
        runs += r3;
        cmp += r3;
        if let Some((what, detail)) = bad3 {
            viol += 1;
            if files.len() < 5 {
                let path = format!("{}/{}-client-{}.json", o.out_dir, o.prop, files.len());
                std::fs::create_dir_all(&o.out_dir).ok();
                std::fs::write(&path, serde_json::to_string_pretty(&json!({"property": o.prop, "kind": "serde-client", "aspect": o.aspect, "what": what, "detail": detail})).unwrap()).ok();
                println!("VIOLATION property={} replay={}", o.prop, path);
                files.push(path);
            }
        }
    }
    // deterministic: content shapes of `$value` that the data-driven client does not produce (tuple STRUCTS, tuples, unit items):
    // indentation adds white space between markup only - read back, the indented output is the plain one
    if o.aspect == "c19" || o.aspect == "c13" {
        let (r4, bad4) = value_content_shapes();
        runs += r4;
        cmp += r4;
        if let Some((what, detail)) = bad4 {
            viol += 1;
            if files.len() < 5 {
                let path = format!("{}/{}-shapes-{}.json", o.out_dir, o.prop, files.len());
                std::fs::create_dir_all(&o.out_dir).ok();
                std::fs::write(&path, serde_json::to_string_pretty(&json!({"property": o.prop, "kind": "serde-shapes", "aspect": o.aspect, "what": what, "detail": detail})).unwrap()).ok();
                println!("VIOLATION property={} replay={}", o.prop, path);
                files.push(path);
            }
        }
    }
    // deterministic: values nested beyond the indent cache (depth x width > 128 bytes), every aspect
    let (r2, bad) = deep_nesting();
    runs += r2;
    cmp += r2;
    if let Some((what, detail)) = bad {
        viol += 1;
        if files.len() < 5 {
            let path = format!("{}/{}-deep-{}.json", o.out_dir, o.prop, files.len());
            std::fs::create_dir_all(&o.out_dir).ok();
            std::fs::write(&path, serde_json::to_string_pretty(&json!({"property": o.prop, "kind": "serde-deep", "aspect": o.aspect, "what": what, "detail": detail})).unwrap()).ok();
            println!("VIOLATION property={} replay={}", o.prop, path);
            files.push(path);
        }
    }
    let mut d = Map::new();
    if drift > 0 {
        d.insert("serializer-accepts-or-rejects-differently-from-model".into(), json!(drift));
    }
    let mut devs = Map::new();
    if known_c14_1 > 0 {
        devs.insert("C14-1".into(), json!(known_c14_1));
    }
    json!({"behaviours": n, "runs": runs, "comparisons": cmp, "nontrivial": nontriv, "violations": viol, "samples": samples, "drift": d, "devs_used": devs})
}

/// Mixed content given as a tuple struct / tuple / Vec of the same items inside a `$value` field, serialized plain and with
/// three indentations: dropping the white-space-only text, the indented document reads back as the plain one (text payloads
/// byte-identical), and the three container kinds give the same plain document.
pub fn value_content_shapes() -> (u64, Option<(String, Value)>) {
    use serde::Serialize;
    #[derive(Serialize, Clone)]
    enum It {
        Br,
        Node { #[serde(rename = "@k")] k: String },
        #[serde(rename = "$text")]
        T(String),
    }
    #[derive(Serialize)]
    struct P2(It, It);
    #[derive(Serialize)]
    struct P3(It, It, It);
    #[derive(Serialize)]
    struct HS2 { #[serde(rename = "@id")] id: u8, #[serde(rename = "$value")] c: P2 }
    #[derive(Serialize)]
    struct HS3 { #[serde(rename = "$value")] c: P3 }
    #[derive(Serialize)]
    struct HT3 { #[serde(rename = "$value")] c: (It, It, It) }
    #[derive(Serialize)]
    struct HV { #[serde(rename = "$value")] c: Vec<It> }
    fn ser<T: Serialize>(v: &T, indent: Option<(char, usize)>) -> Result<String, String> {
        let mut out = String::new();
        let mut s = quick_xml::se::Serializer::with_root(&mut out, Some("root")).map_err(|e| e.to_string())?;
        if let Some((c, n)) = indent {
            s.indent(c, n);
        }
        v.serialize(s).map_err(|e| e.to_string())?;
        Ok(out)
    }
    let t = |x: &str| It::T(x.to_string());
    let n = || It::Node { k: "<".into() };
    let triples: Vec<(It, It, It)> = vec![
        (t("some text"), It::Br, t("tail")),
        (It::Br, t("x"), It::Br),
        (n(), t("a b"), n()),
        (t("t"), n(), It::Br),
        (It::Br, It::Br, t("end")),
    ];
    let mut runs = 0u64;
    for (a, b, c) in triples {
        let r = catch_unwind(AssertUnwindSafe(|| -> Result<(), String> {
            let plain3 = ser(&HS3 { c: P3(a.clone(), b.clone(), c.clone()) }, None)?;
            let plain_t = ser(&HT3 { c: (a.clone(), b.clone(), c.clone()) }, None)?;
            let plain_v = ser(&HV { c: vec![a.clone(), b.clone(), c.clone()] }, None)?;
            if plain3 != plain_t || plain3 != plain_v {
                return Err(format!("tuple struct / tuple / Vec of the same items differ: {plain3:?} / {plain_t:?} / {plain_v:?}"));
            }
            let plain2 = ser(&HS2 { id: 1, c: P2(a.clone(), b.clone()) }, None)?;
            for indent in [(' ', 2usize), ('\t', 1), (' ', 0), (' ', 9)] {
                for (what, plain, ind) in [
                    ("tuple struct of 3", &plain3, ser(&HS3 { c: P3(a.clone(), b.clone(), c.clone()) }, Some(indent))?),
                    ("tuple of 3", &plain3, ser(&HT3 { c: (a.clone(), b.clone(), c.clone()) }, Some(indent))?),
                    ("Vec of 3", &plain3, ser(&HV { c: vec![a.clone(), b.clone(), c.clone()] }, Some(indent))?),
                    ("tuple struct of 2 after an attribute", &plain2, ser(&HS2 { id: 1, c: P2(a.clone(), b.clone()) }, Some(indent))?),
                ] {
                    well_formed(&ind)?;
                    let p = normalize(read_back(plain.as_bytes())?, true);
                    let i = normalize(read_back(ind.as_bytes())?, true);
                    if p != i {
                        return Err(format!("{what}, indent {indent:?}: the indented document {ind:?} does not read back as the plain one {plain:?}"));
                    }
                }
            }
            Ok(())
        }));
        runs += 1;
        match r {
            Ok(Ok(())) => {}
            Ok(Err(e)) => return (runs, Some(("value-content-shapes".into(), json!({"error": e})))),
            Err(_) => return (runs, Some(("panic".into(), json!({"check": "value_content_shapes"})))),
        }
    }
    (runs, None)
}

/// Hand-written `Serialize` implementations that call `SerializeMap::serialize_value` while no key is pending (first call,
/// twice after one key, after an entry), at the root and inside a struct field.
pub fn misbehaving_map_clients() -> (u64, Option<(String, Value)>) {
    use serde::ser::{SerializeMap, SerializeStruct, Serializer as _};
    struct Bad(u8);
    impl serde::Serialize for Bad {
        fn serialize<S: serde::Serializer>(&self, s: S) -> Result<S::Ok, S::Error> {
            let mut m = s.serialize_map(None)?;
            match self.0 {
                0 => m.serialize_value("v")?,
                1 => {
                    m.serialize_key("k")?;
                    m.serialize_value("v")?;
                    m.serialize_value("w")?;
                }
                2 => {
                    m.serialize_entry("@a", "1")?;
                    m.serialize_value("w")?;
                }
                _ => {
                    m.serialize_key("k")?;
                    m.serialize_value("v")?;
                }
            }
            m.end()
        }
    }
    struct Outer(u8);
    impl serde::Serialize for Outer {
        fn serialize<S: serde::Serializer>(&self, s: S) -> Result<S::Ok, S::Error> {
            let mut st = s.serialize_struct("Outer", 2)?;
            st.serialize_field("@id", "7")?;
            st.serialize_field("inner", &Bad(self.0))?;
            st.end()
        }
    }
    let mut runs = 0u64;
    for mode in 0..4u8 {
        for nested in [false, true] {
            let r = catch_unwind(AssertUnwindSafe(|| {
                let mut out = String::new();
                let ser = quick_xml::se::Serializer::with_root(&mut out, Some("root")).map_err(|e| e.to_string())?;
                let res = if nested { serde::Serialize::serialize(&Outer(mode), ser) } else { serde::Serialize::serialize(&Bad(mode), ser) };
                match res {
                    Err(_) => Ok::<(), String>(()),
                    Ok(_) => well_formed(&out).map_err(|e| format!("Ok with a document that is not well-formed: {out:?}: {e}")),
                }
            }));
            runs += 1;
            match r {
                Ok(Ok(())) => {}
                Ok(Err(e)) => return (runs, Some(("misbehaving-client".into(), json!({"mode": mode, "nested": nested, "error": e})))),
                Err(_) => return (runs, Some(("panic".into(), json!({"client": "serialize_value without a pending key", "mode": mode, "nested": nested})))),
            }
        }
    }
    (runs, None)
}

/// A chain of nested structs `<R><e><e>..x..</e></e></R>` of the given depth serialized with the given indentation: the
/// serializer must return a well-formed document of exactly that nesting that deserializes to the value (C06, C13, C19).
/// Depth x width crosses the serializer's indent cache (128 bytes initially).  Returns (runs, first problem).
pub fn deep_nesting() -> (u64, Option<(String, Value)>) {
    use crate::dynser::{Field, Ty};
    let mut runs = 0u64;
    for (depth, indent) in [(70usize, Some((' ', 2usize))), (40, Some((' ', 4))), (140, Some(('\t', 1))), (3, Some((' ', 150))), (66, Some((' ', 2))), (70, None)] {
        let mut ty = Ty::Str;
        let mut v = json!({"s": [120]});
        for _ in 0..depth {
            ty = Ty::Struct(vec![Field { jkey: "e".into(), ty }]);
            v = json!({"o": [[[101], v]]});
        }
        let r = catch_unwind(AssertUnwindSafe(|| {
            let doc = crate::dynser::ser(&ty, &v, "R", &crate::dynser::SerOpts { quote: 0, indent, expand_empty: false })?;
            well_formed(&doc)?;
            let opens = doc.matches("<e>").count();
            let closes = doc.matches("</e>").count();
            if opens != depth || closes != depth || !doc.starts_with("<R>") || !doc.trim_end().ends_with("</R>") {
                return Err(format!("nesting of the document differs from the value: {opens} <e>, {closes} </e>, depth {depth}"));
            }
            if indent.is_none() && doc.contains(char::is_whitespace) {
                return Err("white space in a document written without indentation".into());
            }
            let back = crate::dynser::de_str(&ty, &doc)?;
            if back != v {
                return Err("the document does not deserialize to the value".into());
            }
            Ok::<(), String>(())
        }));
        runs += 1;
        match r {
            Ok(Ok(())) => {}
            Ok(Err(e)) => return (runs, Some(("deep-nesting".into(), json!({"depth": depth, "indent": format!("{indent:?}"), "error": e})))),
            Err(_) => return (runs, Some(("panic".into(), json!({"depth": depth, "indent": format!("{indent:?}")})))),
        }
    }
    (runs, None)
}

/// Mixed content in front of everything else: an element the target skips whose content is (or ends with) text, followed by
/// text that starts with blanks.  Whether a target captures that text or not, both entry points must agree on it.
fn mixed_skip(doc: &str, child_first: bool) -> String {
    let ins = if child_first { "<zz><b/>tail</zz>  lead " } else { "<zz>tail</zz>  lead " };
    insert_first_child(doc, ins)
}

/// `ins` placed right after the root's start tag (nothing for a self-closed root)
fn insert_first_child(doc: &str, ins: &str) -> String {
    let b = doc.as_bytes();
    let (mut i, mut q) = (0usize, 0u8);
    while i < b.len() {
        match (q, b[i]) {
            (0, b'"') | (0, b'\'') => q = b[i],
            (0, b'>') => break,
            (c, d) if c != 0 && c == d => q = 0,
            _ => {}
        }
        i += 1;
    }
    if i >= b.len() || i == 0 || b[i - 1] == b'/' {
        return doc.to_string();
    }
    format!("{}{}{}", &doc[..=i], ins, &doc[i + 1..])
}

/// A presentation that exercises the namespace bookkeeping behind `xsi:nil`: the root binds prefix `x` to an ordinary
/// namespace, an unknown first child (skipped by the deserializer; its first child repeats its name) rebinds `x` to the
/// XMLSchema-instance namespace, and every other child carries `x:nil="true"` - which means nothing as long as the scope of
/// the skipped element has ended.  Whatever the deserializer makes of it, the str and the reader entry points must agree.
fn ns_scopes(doc: &str) -> String {
    decorate(doc, " xmlns:x=\"urn:other\"", "<zz xmlns:x=\"http://www.w3.org/2001/XMLSchema-instance\"><zz><zz x:nil=\"true\"/></zz></zz>", " x:nil=\"true\"")
}

/// Presentations in which the prefix IS bound to the XMLSchema-instance namespace on the root and every descendant carries the
/// attribute: properly quoted (every child is nil: "absent"), or with an UNQUOTED value (an attribute error for the XML
/// attribute grammar - whatever the deserializer makes of that, both entry points must make the same of it).
fn nil_everywhere(doc: &str, quoted: bool) -> String {
    decorate(doc, " xmlns:x=\"http://www.w3.org/2001/XMLSchema-instance\"", "", if quoted { " x:nil=\"true\"" } else { " x:nil=true" })
}

fn decorate(doc: &str, root_attr: &str, first_child: &str, attr: &str) -> String {
    let b = doc.as_bytes();
    // end of the root start tag: the first '>' outside quotes
    let (mut i, mut q) = (0usize, 0u8);
    while i < b.len() {
        match (q, b[i]) {
            (0, b'"') | (0, b'\'') => q = b[i],
            (0, b'>') => break,
            (c, d) if c != 0 && c == d => q = 0,
            _ => {}
        }
        i += 1;
    }
    if i >= b.len() || i == 0 || b[i - 1] == b'/' {
        return doc.to_string(); // no content to decorate
    }
    let mut out = String::with_capacity(doc.len() + 200);
    out.push_str(&doc[..i]);
    out.push_str(root_attr);
    out.push('>');
    out.push_str(first_child);
    let rest = &doc[i + 1..];
    let rb = rest.as_bytes();
    let mut k = 0;
    while k < rb.len() {
        if rb[k] == b'<' && k + 1 < rb.len() && !matches!(rb[k + 1], b'/' | b'!' | b'?') {
            // copy '<' + name, then the attribute
            let mut e = k + 1;
            while e < rb.len() && !matches!(rb[e], b' ' | b'>' | b'/' | b'\t' | b'\n') {
                e += 1;
            }
            out.push_str(&rest[k..e]);
            out.push_str(attr);
            k = e;
        } else {
            let ch = rest[k..].chars().next().unwrap();
            out.push(ch);
            k += ch.len_utf8();
        }
    }
    out
}

/// the same document with the namespace prefix `ns:` on every element name (the serializer's output contains `<` only as
/// the first byte of a tag)
fn prefixed(doc: &str) -> String {
    let mut out = String::with_capacity(doc.len() + 16);
    let b = doc.as_bytes();
    let mut i = 0;
    while i < b.len() {
        if b[i] == b'<' && i + 1 < b.len() && b[i + 1] == b'/' {
            out.push_str("</ns:");
            i += 2;
        } else if b[i] == b'<' && i + 1 < b.len() && b[i + 1] != b'!' && b[i + 1] != b'?' {
            out.push_str("<ns:");
            i += 1;
        } else {
            let ch = doc[i..].chars().next().unwrap();
            out.push(ch);
            i += ch.len_utf8();
        }
    }
    out
}

pub fn rerun(path: &str) -> bool {
    let v: Value = serde_json::from_str(&std::fs::read_to_string(path).unwrap()).unwrap();
    let tmp = format!("{}.rerun.ndjson", path);
    std::fs::write(&tmp, format!("{}\n", v["behaviour"])).unwrap();
    let r = replay(&Opts { file: tmp.clone(), prop: "RERUN".into(), out_dir: "/dev/null".into(), aspect: v["aspect"].as_str().unwrap_or("c06").into(), seed: 1 });
    std::fs::remove_file(&tmp).ok();
    println!("{}", r);
    r["violations"].as_u64().unwrap_or(0) > 0
}

/// Leg (C): real serializer output recorded for TLC (spec reader parses the real bytes)
pub fn record(file: &str, out: &str, seed: u64, every: usize) -> Value {
    let f = std::io::BufReader::new(std::fs::File::open(file).expect("behaviour file"));
    let mut w = std::io::BufWriter::new(std::fs::File::create(out).expect("trace file"));
    let mut rng = StdRng::seed_from_u64(seed);
    let (mut events, mut nontriv) = (0u64, 0u64);
    for (i, line) in f.lines().enumerate() {
        let line = line.unwrap();
        if line.trim().is_empty() || i % every != (seed as usize) % every {
            continue;
        }
        let b: Value = serde_json::from_str(&line).expect("json");
        let ty = b["ty"].as_str().unwrap();
        let v = plain(&b["v"]);
        let quote = rng.gen_range(0..3u8);
        let expand = rng.gen_bool(0.5);
        let indent = if b["rt"] == 1 && rng.gen_bool(0.4) { Some((' ', rng.gen_range(0..4usize))) } else { None };
        let root_s = text(&b["root"]);
        let so = SerOpts { quote, indent, expand_empty: expand, root: if root_s == ty { None } else { Some(root_s) } };
        let outp = ser(ty, &v, &so);
        let de_same = match &outp {
            Ok(doc) => matches!(de_eq(ty, doc, &v), Ok(true)),
            Err(_) => false,
        };
        writeln!(w, "{}", json!({"t": "Ser", "ty": ty, "v": b["v"], "root": b["root"], "rt": b["rt"], "indent": if indent.is_some() {1} else {0},
            "ok": if outp.is_ok() {1} else {0}, "out": outp.as_ref().map(|d| d.as_bytes().to_vec()).unwrap_or_default(), "de_same": if de_same {1} else {0}})).unwrap();
        events += 1;
        nontriv += 1;
    }
    w.flush().unwrap();
    json!({"traces": events, "events": events, "nontrivial": nontriv, "samples": [], "runs": events, "comparisons": events})
}
