-------------------------------- MODULE DeSM --------------------------------
(***************************************************************************)
(* The event pipeline of the serde deserializer (src/de/mod.rs):           *)
(*   NsReader events (reader spec, expand_empty_elements on)               *)
(*     -> StartTrimmer::trim      (drops comments/PI/decl, trims text      *)
(*                                 start after markup, drops empty text)   *)
(*     -> XmlReader::next / drain_text  (one event of lookahead; merges    *)
(*                                 adjacent Text/CDATA, trims the end of   *)
(*                                 the last piece, unescapes, swallows     *)
(*                                 DOCTYPE)                                *)
(*     -> DeEvent stream  Start | End | Text | Eof                         *)
(* and the replay queues of Deserializer (overlapped lists, C20).          *)
(* Design lemma (justifies the unreachable!() in Deserializer::read_text,  *)
(* MapValueSeqAccess, ...): the DeEvent stream never contains two          *)
(* consecutive Text events.  For that the DOCTYPE must be transparent to   *)
(* the text run: SkipDoctype = TRUE is the design; FALSE is the code       *)
(* before the repair (a DOCTYPE between two text runs split them).         *)
(***************************************************************************)
EXTENDS XmlLex, Escape

DeCfg == [DefaultCfg EXCEPT !.eee = TRUE]

\* ---- reader events until Eof or the first error
RECURSIVE ReaderRun(_, _, _)
ReaderRun(doc, st, fuel) ==
    LET r == ReadEvent(doc, DeCfg, st, {}) IN
    IF fuel = 0 \/ r.ev.k \in {"Eof", "Err"} THEN <<r.ev>>
    ELSE <<r.ev>> \o ReaderRun(doc, r.st, fuel - 1)
ReaderEvents(doc) == ReaderRun(doc, InitSt, 2 * Len(doc) + 4)

\* ---- StartTrimmer: payload events [k, lo, hi, n]; text spans already start-trimmed
RECURSIVE TrimRun(_, _, _, _)
TrimRun(doc, evs, i, trim) ==
    IF i > Len(evs) THEN <<>>
    ELSE LET e == evs[i] IN
    CASE e.k \in {"Start", "End", "DocType", "Eof"} -> <<e>> \o TrimRun(doc, evs, i + 1, TRUE)
      [] e.k = "Err" -> <<e>>
      [] e.k = "CData" -> <<e>> \o TrimRun(doc, evs, i + 1, FALSE)
      [] e.k = "Text" ->
            LET lo == IF trim THEN SkipWsFrom(doc, e.lo, e.hi) ELSE e.lo IN
            IF trim /\ lo = e.hi THEN TrimRun(doc, evs, i + 1, trim)      \* dropped, flag unchanged
            ELSE <<[e EXCEPT !.lo = lo]>> \o TrimRun(doc, evs, i + 1, FALSE)
      [] OTHER -> TrimRun(doc, evs, i + 1, trim)                           \* Comment, PI, Decl
Payloads(doc) == TrimRun(doc, ReaderEvents(doc), 1, TRUE)

\* ---- XmlReader::next.  P = payloads, i = index of the event taken by next_impl;
\* the lookahead is P[i+1].
IsTextual(P, j) == j <= Len(P) /\ P[j].k \in {"Text", "CData"}
\* index of the lookahead as the text-run logic sees it
RECURSIVE SkipD(_, _, _)
SkipD(P, j, skip) == IF skip /\ j <= Len(P) /\ P[j].k = "DocType" THEN SkipD(P, j + 1, skip) ELSE j

DeEvErr(e) == <<"Err", e>>
\* collect the text run starting at payload i; returns [txt, next, err]
\* ent = the deserializer's EntityResolver ("predef" = PredefinedEntityResolver, "custom" = Escape!CustomEnt): EVERY Text
\* piece of a run - the first one and the continuation pieces after a comment / PI / CDATA / DOCTYPE - is unescaped with it
RECURSIVE DrainE(_, _, _, _, _, _)
DrainE(doc, P, i, acc, skip, ent) ==
    \* P[i] is Text/CData, already taken.  la = effective lookahead index.
    LET la == SkipD(P, i + 1, skip)
        last == ~IsTextual(P, la)
        e == P[i]
        hi == IF e.k = "Text" /\ last THEN TrimEndTo(doc, e.lo, e.hi) ELSE e.hi
        piece == IF e.k = "Text" THEN UnescFromE(Slice(doc, e.lo, hi), 0, ent) ELSE [ok |-> TRUE, out |-> Slice(doc, e.lo, e.hi), e |-> ""] IN
    IF ~piece.ok THEN [txt |-> <<>>, next |-> la, err |-> "Escape"]
    ELSE IF last THEN [txt |-> acc \o piece.out, next |-> la, err |-> ""]
    ELSE DrainE(doc, P, la, acc \o piece.out, skip, ent)
Drain(doc, P, i, acc, skip) == DrainE(doc, P, i, acc, skip, "predef")

RECURSIVE DeRunE(_, _, _, _, _)
DeRunE(doc, P, i, skip, ent) ==
    IF i > Len(P) THEN <<>>
    ELSE LET e == P[i] IN
    CASE e.k = "Start" -> <<<<"Start", e.lo, e.hi, e.n>>>> \o DeRunE(doc, P, i + 1, skip, ent)
      [] e.k = "End" -> <<<<"End", e.lo, e.hi, 0>>>> \o DeRunE(doc, P, i + 1, skip, ent)
      [] e.k = "DocType" -> DeRunE(doc, P, i + 1, skip, ent)
      [] e.k = "Eof" -> <<<<"Eof", 0, 0, 0>>>>
      [] e.k = "Err" -> <<<<"Err", 0, 0, 0>>>>
      [] OTHER ->    \* Text / CData
            LET la == SkipD(P, i + 1, skip) IN
            IF e.k = "Text" /\ ~IsTextual(P, la) /\ TrimEndTo(doc, e.lo, e.hi) = e.lo
            THEN DeRunE(doc, P, la, skip, ent)                            \* became empty: skipped
            ELSE LET d == DrainE(doc, P, i, <<>>, skip, ent) IN
                 IF d.err # "" THEN <<<<"Err", 0, 0, 0>>>>
                 ELSE <<<<"Text", d.txt>>>> \o DeRunE(doc, P, d.next, skip, ent)
DeRun(doc, P, i, skip) == DeRunE(doc, P, i, skip, "predef")

DeEvents(doc, skip) == DeRun(doc, Payloads(doc), 1, skip)
DeEventsE(doc, skip, ent) == DeRunE(doc, Payloads(doc), 1, skip, ent)
\* ---- a consumer: a SEQUENCE OF OPTIONS as the top-level target (SeqAccess for &mut Deserializer + deserialize_option).
\* An item is None for an empty text (it can only come from <![CDATA[]]>) - and that event is consumed -, otherwise Some(..) of
\* whatever the inner type makes of the next event (a text: that event; a start tag: at most its subtree; anything else is an
\* error that ends the run).  Every item consumes at least one event, so the sequence ends: the number of items, or -1 when it
\* does not end.  dev "C07-1": None WITHOUT consuming the event - the defect repaired by fix commit 44f306a - never ends.
RECURSIVE SubtreeEnd(_, _, _)
SubtreeEnd(D, i, depth) ==      \* index just after the End that closes the Start at i (or after the last event)
    IF i > Len(D) THEN i
    ELSE IF D[i][1] = "Start" THEN SubtreeEnd(D, i + 1, depth + 1)
    ELSE IF D[i][1] = "End" THEN (IF depth = 1 THEN i + 1 ELSE SubtreeEnd(D, i + 1, depth - 1))
    ELSE IF D[i][1] \in {"Eof", "Err"} THEN i
    ELSE SubtreeEnd(D, i + 1, depth)
RECURSIVE RootOptItems(_, _, _, _)
RootOptItems(D, i, fuel, dev) ==
    IF fuel = 0 THEN -1
    ELSE IF i > Len(D) \/ D[i][1] \in {"Eof", "Err", "End"} THEN 0
    ELSE IF D[i][1] = "Text" /\ D[i][2] = <<>> THEN
         LET r == RootOptItems(D, IF "C07-1" \in dev THEN i ELSE i + 1, fuel - 1, dev) IN IF r < 0 THEN -1 ELSE r + 1
    ELSE LET j == IF D[i][1] = "Start" THEN SubtreeEnd(D, i, 0) ELSE i + 1
             r == RootOptItems(D, j, fuel - 1, dev) IN IF r < 0 THEN -1 ELSE r + 1

\* what a String target gets from a document that is one element with (possibly no) character content: [known, text]
StringOf(D) ==
    IF Len(D) = 4 /\ D[1][1] = "Start" /\ D[2][1] = "Text" /\ D[3][1] = "End" /\ D[4][1] = "Eof" THEN [known |-> TRUE, text |-> D[2][2]]
    ELSE IF Len(D) = 3 /\ D[1][1] = "Start" /\ D[2][1] = "End" /\ D[3][1] = "Eof" THEN [known |-> TRUE, text |-> <<>>]
    ELSE [known |-> FALSE, text |-> <<>>]
\* what an EntityResolver is asked to capture: the content of every DOCTYPE the reader delivers, in order (the
\* deserializer may stop before it has seen all of them: what a run captures is a prefix of this list)
DocTypes(doc) == LET P == SelectSeq(Payloads(doc), LAMBDA e : e.k = "DocType") IN [i \in 1..Len(P) |-> Slice(doc, P[i].lo, P[i].hi)]

NoTwoTexts(D) == \A i \in 1..(Len(D) - 1) : ~(D[i][1] = "Text" /\ D[i + 1][1] = "Text")
\* projection for comparisons across rewrites: names and attribute bytes, text content
DeView(doc, D) == [i \in 1..Len(D) |->
    CASE D[i][1] = "Start" -> <<"Start", Slice(doc, D[i][2], D[i][3])>>
      [] D[i][1] = "End" -> <<"End", Slice(doc, D[i][2], D[i][3])>>
      [] D[i][1] = "Text" -> <<"Text", D[i][2]>>
      [] OTHER -> <<D[i][1]>>]

---------------------------------------------------------------------------
(* Replay queues (feature overlapped-lists): read, write, limit.           *)
(* The consumer modelled is the one C20 is about: a struct whose list      *)
(* fields are deserialized by MapValueSeqAccess with a fixed tag name;     *)
(* children = sequence of [name, size] (size = number of DeEvents of the   *)
(* subtree).  When the struct meets the first child of a list field it     *)
(* takes all children with that name until the parent's End, skipping      *)
(* (buffering) every other child; on drop the buffered events are replayed.*)
(* Held(children, lists) = the largest number of events the write buffer   *)
(* must hold at once; deserialization fails with TooManyEvents iff         *)
(* Held > limit.                                                           *)
RECURSIVE SumSizes(_)
SumSizes(cs) == IF cs = <<>> THEN 0 ELSE Head(cs).size + SumSizes(Tail(cs))
MaxOf(S) == IF S = {} THEN 0 ELSE CHOOSE x \in S : \A y \in S : y <= x
\* children: sequence of [name, size, inner]; inner = events the child's OWN nested sequence accesses buffer
\* while it is being deserialized (they are pushed on the same write buffer, above the outer ones: the nested
\* access takes write.len() as its checkpoint).  lists = names of the list fields at this level.
RECURSIVE Held(_, _)
Held(cs, lists) ==
    IF cs = <<>> THEN 0
    ELSE LET c == Head(cs)
             rest == Tail(cs) IN
         IF c.name \in lists THEN
            \* the sequence access runs to the End of the parent: every later child with another name is buffered
            LET others == SelectSeq(rest, LAMBDA x : x.name # c.name)
                before(i) == SumSizes(SelectSeq(SubSeq(rest, 1, i - 1), LAMBDA x : x.name # c.name))
                peaks == {c.inner} \cup {before(i) + rest[i].inner : i \in {j \in 1..Len(rest) : rest[j].name = c.name}} IN
            Max2(Max2(SumSizes(others), MaxOf(peaks)), Held(others, lists))
         ELSE Max2(c.inner, Held(rest, lists))
=============================================================================
