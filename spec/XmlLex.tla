------------------------------- MODULE XmlLex -------------------------------
(***************************************************************************)
(* The lexical grammar quick-xml implements, stated declaratively: no      *)
(* buffer, no call, no carry, no parser state.  Delimiters are "the least  *)
(* offset such that <predicate on the whole input>"; the event stream of   *)
(* a document under the neutral configuration is a recursion over          *)
(* positions; the effect of the seven switches is a transformation         *)
(* Transform(cfg, .) of the neutral stream (C16).  The machines            *)
(* (XmlRead.tla, Source.tla) are checked against this module by TLC.       *)
(***************************************************************************)
EXTENDS XmlRead

MinOf(S) == CHOOSE x \in S : \A y \in S : x <= y
\* least q in [p, N) with P(q), or N
First(p, N, P(_)) == LET S == {q \in p..(N - 1) : P(q)} IN IF S = {} THEN N ELSE MinOf(S)
Count(s, lo, hi, b) == Cardinality({i \in lo..(hi - 1) : At(s, i) = b})

\* text: up to the first '<'
LexTextEnd(s, p) == First(p, Len(s), LAMBDA q : At(s, q) = LT)

\* tags: p = offset after '<'.  The quote state before offset i.
LexQuote(s, p) ==
    LET QS[i \in p..Len(s)] == IF i = p THEN 0 ELSE NextQ(QS[i - 1], At(s, i - 1)) IN QS
LexTagEnd(s, p) ==
    LET qs == LexQuote(s, p) IN First(p, Len(s), LAMBDA q : At(s, q) = GT /\ qs[q] = 0)

\* PI: p = offset of the opening '?'
LexPiEnd(s, p) == First(p + 1, Len(s), LAMBDA q : At(s, q) = GT /\ At(s, q - 1) = QM)

\* comment: p = offset of '!'; "-->" whose '>' is more than 4 bytes after the '!'
LexCommentEnd(s, p) ==
    First(p + 5, Len(s), LAMBDA q : At(s, q) = GT /\ At(s, q - 1) = DASH /\ At(s, q - 2) = DASH)

\* CDATA: p = offset of '!'; first "]]>" (both brackets after the '!')
LexCDataEnd(s, p) ==
    First(p + 3, Len(s), LAMBDA q : At(s, q) = GT /\ At(s, q - 1) = RBR /\ At(s, q - 2) = RBR)

\* DOCTYPE: p = offset of '!'; first '>' with as many '<' as '>' before it
LexDoctypeEnd(s, p) ==
    First(p + 1, Len(s), LAMBDA q : At(s, q) = GT /\ Count(s, p + 1, q, LT) = Count(s, p + 1, q, GT))

---------------------------------------------------------------------------
(* Neutral event stream.  An element of the stream is                      *)
(*   [k, e, lo, hi, n, xlo, xhi, after]                                    *)
(* where `after` is the position reported after the construct.             *)
NEv(k, lo, hi, n, after) ==
    [k |-> k, e |-> "", lo |-> lo, hi |-> hi, n |-> n, xlo |-> 0, xhi |-> 0, after |-> after]
NErr(e, after) ==
    [k |-> "Err", e |-> e, lo |-> 0, hi |-> 0, n |-> 0, xlo |-> 0, xhi |-> 0, after |-> after]

\* The construct that starts with the '<' at offset p - 1 (p = offset after it).
LexMarkup(s, p) ==
    LET N == Len(s) IN
    IF p >= N THEN NErr("Syntax.UnclosedTag", N)
    ELSE LET b == At(s, p) IN
    CASE b = BANG ->
            LET ty == IF p + 1 < N THEN BangTypeOf(At(s, p + 1)) ELSE "" IN
            IF ty = "" THEN NErr("Syntax.InvalidBangMarkup", p)
            ELSE LET q == CASE ty = "Comment" -> LexCommentEnd(s, p)
                            [] ty = "CData" -> LexCDataEnd(s, p)
                            [] OTHER -> LexDoctypeEnd(s, p) IN
                 IF q >= N THEN NErr(BangErr(ty), N)
                 ELSE IF ty = "Comment" /\ StartsAt(s, p, q, S_BDASH2)
                      THEN NEv("Comment", p + 3, q - 2, 0, q + 1)
                 ELSE IF ty = "CData" /\ StartsAt(s, p, q, S_BCDATA)
                      THEN NEv("CData", p + 8, q - 2, 0, q + 1)
                 ELSE IF ty = "DocType" /\ StartsAtNoCase(s, p, q, S_BDOCT)
                      THEN LET c == SkipWsFrom(s, p + 8, q) IN
                           IF c < q THEN NEv("DocType", c, q, 0, q + 1)
                           ELSE NErr("IllFormed.MissingDoctypeName", q + 1)
                 ELSE NErr(BangErr(ty), q + 1)
      [] b = QM ->
            LET q == LexPiEnd(s, p) IN
            IF q >= N THEN NErr("Syntax.UnclosedPIOrXmlDecl", N)
            ELSE IF q - p < 2 THEN NErr("Syntax.UnclosedPIOrXmlDecl", q + 1)   \* "<?>"
            ELSE IF StartsAt(s, p + 1, q - 1, S_XML) /\ (q - p - 2 = 3 \/ IsWs(At(s, p + 4)))
                 THEN NEv("Decl", p + 1, q - 1, 3, q + 1)
            ELSE NEv("PI", p + 1, q - 1, NameLen(s, p + 1, q - 1), q + 1)
      [] b = SLASH ->
            LET q == LexTagEnd(s, p) IN
            IF q >= N THEN NErr("Syntax.UnclosedTag", N)
            ELSE NEv("End", p + 1, q, q - p - 1, q + 1)
      [] OTHER ->
            LET q == LexTagEnd(s, p) IN
            IF q >= N THEN NErr("Syntax.UnclosedTag", N)
            ELSE IF q > p /\ At(s, q - 1) = SLASH
                 THEN NEv("Empty", p, q - 1, NameLen(s, p, q - 1), q + 1)
            ELSE NEv("Start", p, q, NameLen(s, p, q), q + 1)

\* Stream from text position p.  Stops after a Syntax error or Eof.
RECURSIVE LexFrom(_, _)
LexFrom(s, p) ==
    LET N == Len(s)
        q == LexTextEnd(s, p) IN
    IF q >= N THEN (IF p < N THEN <<NEv("Text", p, N, 0, N)>> ELSE <<>>) \o <<NEv("Eof", 0, 0, 0, N)>>
    ELSE LET m == LexMarkup(s, q + 1)
             t == IF q > p THEN <<NEv("Text", p, q, 0, q)>> ELSE <<>> IN
         IF m.k = "Err" /\ m.e \in SyntaxKinds THEN t \o <<m>>
         ELSE t \o <<m>> \o LexFrom(s, m.after)

LexEvents(s) == LexFrom(s, 0)

---------------------------------------------------------------------------
(* The documented effect of the switches on the neutral stream (C16, C04). *)
(* stack = names (spans) of the open elements.                             *)
HasDoubleDash(s, lo, hi) ==    \* comment body contains "--" or ends with '-'
    \/ \E i \in lo..(hi - 2) : At(s, i) = DASH /\ At(s, i + 1) = DASH
    \/ (hi > lo /\ At(s, hi - 1) = DASH)

RECURSIVE Tr(_, _, _, _)
Tr(s, cfg, evs, stack) ==
    IF evs = <<>> THEN <<>>
    ELSE LET e == Head(evs)
             rest == Tail(evs) IN
    CASE e.k = "Text" ->
            LET lo == IF cfg.tts THEN SkipWsFrom(s, e.lo, e.hi) ELSE e.lo
                hi == IF cfg.tte THEN TrimEndTo(s, lo, e.hi) ELSE e.hi IN
            IF lo = hi THEN Tr(s, cfg, rest, stack)
            ELSE <<[e EXCEPT !.lo = lo, !.hi = hi]>> \o Tr(s, cfg, rest, stack)
      [] e.k = "Empty" ->
            IF cfg.eee
            THEN <<[e EXCEPT !.k = "Start"], [e EXCEPT !.k = "End", !.hi = e.lo + e.n]>>
                 \o Tr(s, cfg, rest, stack)
            ELSE <<e>> \o Tr(s, cfg, rest, stack)
      [] e.k = "Start" ->
            <<e>> \o Tr(s, cfg, rest, Append(stack, [lo |-> e.lo, hi |-> e.lo + e.n]))
      [] e.k = "End" ->
            LET t   == TrimEndTo(s, e.lo, e.hi)
                hi  == IF cfg.tmn /\ t > e.lo THEN t ELSE e.hi
                e1  == [e EXCEPT !.hi = hi, !.n = hi - e.lo] IN
            IF stack = <<>> THEN
                IF cfg.aue THEN <<e1>> \o Tr(s, cfg, rest, stack)
                ELSE <<[e1 EXCEPT !.k = "Err", !.e = "IllFormed.UnmatchedEndTag", !.n = 0]>>
                     \o Tr(s, cfg, rest, stack)
            ELSE LET top == Last(stack) IN
                IF cfg.cen /\ Slice(s, e.lo, hi) # Slice(s, top.lo, top.hi)
                THEN <<[e1 EXCEPT !.k = "Err", !.e = "IllFormed.MismatchedEndTag", !.n = 0,
                                  !.xlo = top.lo, !.xhi = top.hi]>>
                     \o Tr(s, cfg, rest, Front(stack))
                ELSE <<e1>> \o Tr(s, cfg, rest, Front(stack))
      [] e.k = "Comment" ->
            IF cfg.cc /\ HasDoubleDash(s, e.lo, e.hi)
            THEN <<NErr("IllFormed.DoubleHyphenInComment", e.after)>> \o Tr(s, cfg, rest, stack)
            ELSE <<e>> \o Tr(s, cfg, rest, stack)
      [] OTHER -> <<e>> \o Tr(s, cfg, rest, stack)

Transform(s, cfg, evs) == Tr(s, cfg, evs, <<>>)
RefEvents(s, cfg) == Transform(s, cfg, LexEvents(s))

\* the machine's observation of one call, in the vocabulary of the stream
Obs(r) == [k |-> r.ev.k, e |-> r.ev.e, lo |-> r.ev.lo, hi |-> r.ev.hi, n |-> r.ev.n,
           xlo |-> r.ev.xlo, xhi |-> r.ev.xhi, after |-> BufferPosition(r.st)]

\* k-th element (1-based) of the reference stream, Eof forever after its end
RefAt(ref, k, N) ==
    IF k <= Len(ref) THEN ref[k] ELSE NEv("Eof", 0, 0, 0, ref[Len(ref)].after)

\* C08: the bytes between two consecutive positions are exactly the markup of
\* the event: opening delimiter, content, closing delimiter.
OpenOf(k) == CASE k = "Start" -> <<60>> [] k = "Empty" -> <<60>> [] k = "End" -> <<60, 47>>
               [] k = "Comment" -> <<60, 33, 45, 45>> [] k = "CData" -> <<60>> \o S_BCDATA
               [] k = "PI" -> <<60, 63>> [] k = "Decl" -> <<60, 63>> [] OTHER -> <<>>
CloseOf(k) == CASE k = "Start" -> <<62>> [] k = "Empty" -> <<47, 62>> [] k = "End" -> <<62>>
               [] k = "Comment" -> <<45, 45, 62>> [] k = "CData" -> <<93, 93, 62>>
               [] k = "PI" -> <<63, 62>> [] k = "Decl" -> <<63, 62>> [] OTHER -> <<>>
\* what Writer::write_event writes for an event read from s (WriterSM.Render)
Render(s, e) ==
    IF e.k = "DocType" THEN <<60>> \o S_BDOCT \o <<32>> \o Slice(s, e.lo, e.hi) \o <<62>>
    ELSE OpenOf(e.k) \o Slice(s, e.lo, e.hi) \o CloseOf(e.k)
\* Source span [before, after) equals the rendering, DOCTYPE up to keyword case/spacing
SpanOk(s, e, before, after) ==
    IF e.k = "DocType"
    THEN /\ StartsAtNoCase(s, before, after, <<60>> \o S_BDOCT)
         /\ SkipWsFrom(s, before + 9, after) = e.lo
         /\ e.hi = after - 1 /\ At(s, after - 1) = GT
    ELSE Slice(s, before, after) = Render(s, e)
=============================================================================
