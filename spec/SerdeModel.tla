----------------------------- MODULE SerdeModel -----------------------------
(***************************************************************************)
(* The documented serde mapping (src/de/mod.rs module docs, src/se) over   *)
(* a schema language, for the type family of harness/src/family.rs.        *)
(*                                                                         *)
(* Values (also the JSON exchanged with the harness):                      *)
(*   [s |-> bytes]            string                                       *)
(*   [n |-> digit bytes]      number (opaque decimal atom)                 *)
(*   [b |-> 0/1]  [f |-> decimal bytes]   bool, float (opaque atom)        *)
(*   [o |-> <<<<jkey, v>>..>>] struct / map (ordered)                      *)
(*   [a |-> <<v..>>]          sequence                                     *)
(*   [u |-> name bytes]       unit variant                                 *)
(*   [v |-> name bytes, x |-> value]  newtype / struct / text variant      *)
(*   [z |-> 0]                None                                         *)
(* Types:                                                                  *)
(*   [t |-> "str"] [t |-> "num"]                                           *)
(*   [t |-> "unit", names]                       enum of unit variants     *)
(*   [t |-> "opt", of]  [t |-> "list", of]  [t |-> "slist", of]            *)
(*   [t |-> "struct", fields |-> <<[key, kind, ty]..>>]  kind in           *)
(*        attr elem text value; key = XML name (JSON key = prefix + key)   *)
(*   [t |-> "enum", variants |-> <<[name, kind, ty]..>>] kind in           *)
(*        unit newtype struct text                                         *)
(*   [t |-> "map"]                                string -> string         *)
(* SerTree(v, T, root) = the logical content of the serialized document:   *)
(* a sequence of <<"Start", name, attrs>> <<"End", name, <<>>>>            *)
(* <<"Text", s, <<>>>> (what Writer!ReadBack extracts from real bytes,     *)
(* with <x/> normalised to <x></x>), or Fail when the serializer must      *)
(* reject the value.                                                       *)
(***************************************************************************)
EXTENDS Writer

Fail == <<<<"FAIL", <<>>, <<>>>>>>
IsFail(tr) == tr # <<>> /\ tr[1][1] = "FAIL"
Cat(a, b) == IF IsFail(a) \/ IsFail(b) THEN Fail ELSE a \o b

\* XmlName::try_from (src/se/mod.rs): NameStartChar NameChar*, ASCII subset + any byte >= 0x80; never empty
NameStart(b) == (b >= 65 /\ b <= 90) \/ (b >= 97 /\ b <= 122) \/ b = 95 \/ b = 58 \/ b >= 128
NameChar(b) == NameStart(b) \/ (b >= 48 /\ b <= 57) \/ b = 45 \/ b = 46
IsXmlName(nm) == Len(nm) >= 1 /\ NameStart(nm[1]) /\ \A i \in 2..Len(nm) : NameChar(nm[i])

JoinSp(items) ==
    LET RECURSIVE J(_)
        J(i) == IF i > Len(items) THEN <<>> ELSE (IF i > 1 THEN <<32>> ELSE <<>>) \o items[i] \o J(i + 1) IN J(1)

\* text of a primitive value in attribute / text position; <<0>> = not representable
RECURSIVE PrimText(_, _)
PrimText(v, T) ==
    CASE T.t = "str" -> v.s
      [] T.t = "num" -> v.n
      [] T.t = "bool" -> IF v.b = 1 THEN <<116, 114, 117, 101>> ELSE <<102, 97, 108, 115, 101>>
      [] T.t = "float" -> v.f
      [] T.t = "unit" -> v.u
      [] T.t = "slist" -> JoinSp([i \in 1..Len(v.a) |-> PrimText(v.a[i], T.of)])
      [] OTHER -> <<0>>

TextEv(s) == IF s = <<>> THEN <<>> ELSE <<<<"Text", s, <<>>>>>>
Elem(name, attrs, inner) ==
    IF ~IsXmlName(name) \/ \E i \in 1..Len(attrs) : ~IsXmlName(attrs[i][1]) THEN Fail
    ELSE Cat(<<<<"Start", name, attrs>>>>, Cat(inner, <<<<"End", name, <<>>>>>>))

RECURSIVE SerElem(_, _, _), SerFields(_, _, _), SerValue(_, _), SerAttrs(_, _, _)
\* attributes of a struct value, in field order (absent optionals skipped)
SerAttrs(v, T, i) ==
    IF i > Len(T.fields) THEN <<>>
    ELSE LET f == T.fields[i]
             x == v.o[i][2] IN
         IF f.kind # "attr" THEN SerAttrs(v, T, i + 1)
         ELSE IF f.ty.t = "opt" THEN
                 (IF "z" \in DOMAIN x THEN <<>> ELSE <<<<f.key, PrimText(x, f.ty.of)>>>>) \o SerAttrs(v, T, i + 1)
         ELSE <<<<f.key, PrimText(x, f.ty)>>>> \o SerAttrs(v, T, i + 1)
\* children of a struct value, in field order
SerFields(v, T, i) ==
    IF i > Len(T.fields) THEN <<>>
    ELSE LET f == T.fields[i]
             x == v.o[i][2]
             rest == SerFields(v, T, i + 1) IN
    CASE f.kind = "attr" -> rest
      [] f.kind = "elem" ->
            IF f.ty.t = "opt" THEN (IF "z" \in DOMAIN x THEN rest ELSE Cat(SerElem(f.key, x, f.ty.of), rest))
            ELSE IF f.ty.t = "list" THEN
                LET RECURSIVE L(_)
                    L(j) == IF j > Len(x.a) THEN <<>> ELSE Cat(SerElem(f.key, x.a[j], f.ty.of), L(j + 1)) IN
                Cat(L(1), rest)
            ELSE Cat(SerElem(f.key, x, f.ty), rest)
      [] f.kind = "text" ->
            IF f.ty.t = "opt" THEN (IF "z" \in DOMAIN x THEN rest ELSE Cat(TextEv(PrimText(x, f.ty.of)), rest))
            ELSE Cat(TextEv(PrimText(x, f.ty)), rest)
      [] OTHER ->       \* $value
            IF f.ty.t = "list" THEN
                LET RECURSIVE L(_, _)
                    \* two adjacent primitives (text items) cannot be delimited: the serializer rejects them
                    L(j, prevText) ==
                        IF j > Len(x.a) THEN <<>>
                        ELSE LET isText == "v" \in DOMAIN x.a[j] /\ x.a[j].v = <<36, 116, 101, 120, 116>> IN    \* (an absent optional item is not text)
                             IF isText /\ prevText THEN Fail
                             ELSE Cat(SerValue(x.a[j], f.ty.of), L(j + 1, isText)) IN
                Cat(L(1, FALSE), rest)
            ELSE Cat(SerValue(x, f.ty), rest)

\* a value in $value position: the variant name is the element name
SerValue(x, T) ==
    IF T.t = "opt" THEN (IF "z" \in DOMAIN x THEN <<>> ELSE SerValue(x, T.of))      \* an absent item writes nothing
    ELSE IF T.t = "enum" THEN
        IF "u" \in DOMAIN x THEN Elem(x.u, <<>>, <<>>)
        ELSE LET S == {i \in 1..Len(T.variants) : T.variants[i].name = x.v}
                 var == T.variants[CHOOSE i \in S : TRUE] IN
             IF var.kind \in {"text", "ttext"} THEN TextEv(PrimText(x.x, var.ty))       \* ($text newtype variant / $text tuple variant)
             ELSE SerElem(x.v, x.x, var.ty)
    ELSE IF T.t = "unit" THEN Elem(x.u, <<>>, <<>>)
    ELSE TextEv(PrimText(x, T))

\* a value as the element <name>
SerElem(name, v, T) ==
    CASE T.t \in {"str", "num", "unit", "bool", "float"} -> Elem(name, <<>>, TextEv(PrimText(v, T)))
      [] T.t = "struct" -> Elem(name, SerAttrs(v, T, 1), SerFields(v, T, 1))
      [] T.t = "map" ->
            LET RECURSIVE M(_)
                M(i) == IF i > Len(v.o) THEN <<>> ELSE Cat(Elem(v.o[i][1], <<>>, TextEv(v.o[i][2].s)), M(i + 1)) IN
            Elem(name, <<>>, M(1))
      [] OTHER -> Fail

SerTree(v, T, root) == SerElem(root, v, T)

\* <x/> == <x></x> for the comparison with what was read back
RECURSIVE NormEmpty(_)
NormEmpty(L) ==
    IF L = <<>> THEN <<>>
    ELSE IF Head(L)[1] = "Empty" THEN <<<<"Start", Head(L)[2], Head(L)[3]>>, <<"End", Head(L)[2], <<>>>>>> \o NormEmpty(Tail(L))
    ELSE <<Head(L)>> \o NormEmpty(Tail(L))

\* C13: the skeleton of a logical tree - kinds and names, payloads blanked
Skeleton(L) == [i \in 1..Len(L) |-> IF L[i][1] = "Text" THEN <<"Text">> ELSE <<L[i][1], L[i][2], [j \in 1..Len(L[i][3]) |-> L[i][3][j][1]]>>]
\* properly nested
RECURSIVE Nested(_, _)
Nested(L, stack) ==
    IF L = <<>> THEN stack = <<>>
    ELSE IF Head(L)[1] = "Start" THEN Nested(Tail(L), Append(stack, Head(L)[2]))
    ELSE IF Head(L)[1] = "End" THEN stack # <<>> /\ Last(stack) = Head(L)[2] /\ Nested(Tail(L), Front(stack))
    ELSE IF Head(L)[1] = "Text" THEN Nested(Tail(L), stack)
    ELSE FALSE
=============================================================================
