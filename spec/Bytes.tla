------------------------------- MODULE Bytes -------------------------------
(***************************************************************************)
(* Byte-level vocabulary shared by every module of the quick-xml           *)
(* specification.  Bytes are naturals 0..255, strings are sequences of     *)
(* bytes.  Offsets are 0-based (as in the Rust code and in every logged    *)
(* position); At(s,p) is the byte at offset p, Slice(s,lo,hi) the bytes    *)
(* at offsets lo..hi-1.                                                    *)
(*                                                                         *)
(* Projection table (harness/src/project.rs <-> this header).  Tag P =     *)
(* bound by a clause of a listed property, compared with equality; tag I = *)
(* implementation detail predicted by the spec, compared only in the       *)
(* non-gating drift pass (DESIGN 8.1).                                     *)
(*   event kind, payload span/bytes, name length, order, count     P C01   *)
(*   Decl vs PI                                                    P C01   *)
(*   Syntax error kind when the input stops inside a construct     P C01   *)
(*   error kind of a complete but unclassifiable bang              I       *)
(*   buffer_position after each call                               P C02.. *)
(*   error_position <= buffer_position, equal across sources       P C03   *)
(*   error_position exact value                                    I       *)
(*   Mismatched{expected,found} / Unmatched(name)                  P C04   *)
(***************************************************************************)
EXTENDS Naturals, Integers, Sequences, FiniteSets

LT == 60    GT == 62    BANG == 33   SLASH == 47  QM == 63    DASH == 45
LBR == 91   RBR == 93   SQ == 39     DQ == 34     EQS == 61   SP == 32
TAB == 9    CR == 13    LF == 10     AMP == 38    SEMI == 59  HASH == 35
UD == 68    LD == 100   COLON == 58

Byte == 0..255
IsWs(b) == b \in {32, 9, 13, 10}

At(s, p) == s[p + 1]
Slice(s, lo, hi) == SubSeq(s, lo + 1, hi)

\* ASCII strings used by the classifiers, as byte sequences
S_DASH2   == <<45, 45>>                                   \* --
S_BDASH2  == <<33, 45, 45>>                               \* !--
S_BCDATA  == <<33, 91, 67, 68, 65, 84, 65, 91>>           \* ![CDATA[
S_BDOCT   == <<33, 68, 79, 67, 84, 89, 80, 69>>           \* !DOCTYPE
S_XML     == <<120, 109, 108>>                            \* xml
S_RBR2    == <<93, 93>>                                   \* ]]
UTF8_BOM  == <<239, 187, 191>>

Upper(b) == IF b \in 97..122 THEN b - 32 ELSE b

\* s[lo..hi) starts with the byte string pre
StartsAt(s, lo, hi, pre) ==
    /\ hi - lo >= Len(pre)
    /\ \A i \in 1..Len(pre) : At(s, lo + i - 1) = pre[i]
\* ... ignoring ASCII case
StartsAtNoCase(s, lo, hi, pre) ==
    /\ hi - lo >= Len(pre)
    /\ \A i \in 1..Len(pre) : Upper(At(s, lo + i - 1)) = Upper(pre[i])
\* s[lo..hi) ends with pre
EndsAt(s, lo, hi, pre) ==
    /\ hi - lo >= Len(pre)
    /\ \A i \in 1..Len(pre) : At(s, hi - Len(pre) + i - 1) = pre[i]
SeqEndsWith(b, pre) ==
    /\ Len(b) >= Len(pre)
    /\ \A i \in 1..Len(pre) : b[Len(b) - Len(pre) + i] = pre[i]

\* utils::name_len on s[lo..hi): length of the prefix without XML whitespace
RECURSIVE NameLenFrom(_, _, _)
NameLenFrom(s, p, hi) ==
    IF p >= hi \/ IsWs(At(s, p)) THEN 0 ELSE 1 + NameLenFrom(s, p + 1, hi)
NameLen(s, lo, hi) == NameLenFrom(s, lo, hi)

\* first offset in [p, hi) that is not whitespace, hi if none
RECURSIVE SkipWsFrom(_, _, _)
SkipWsFrom(s, p, hi) ==
    IF p >= hi \/ ~IsWs(At(s, p)) THEN p ELSE SkipWsFrom(s, p + 1, hi)

\* end of s[lo..hi) after removing trailing whitespace (>= lo)
RECURSIVE TrimEndTo(_, _, _)
TrimEndTo(s, lo, hi) ==
    IF hi <= lo \/ ~IsWs(At(s, hi - 1)) THEN hi ELSE TrimEndTo(s, lo, hi - 1)

\* first offset in [p, hi) holding byte b, hi if none
RECURSIVE FindByte(_, _, _, _)
FindByte(s, p, hi, b) ==
    IF p >= hi \/ At(s, p) = b THEN p ELSE FindByte(s, p + 1, hi, b)

AllAscii(s, lo, hi) == \A i \in lo..(hi - 1) : At(s, i) < 128

Last(q) == q[Len(q)]
Front(q) == SubSeq(q, 1, Len(q) - 1)
Min2(a, b) == IF a <= b THEN a ELSE b
Max2(a, b) == IF a >= b THEN a ELSE b

\* concatenation of a sequence of sequences
RECURSIVE Flatten(_)
Flatten(ss) == IF ss = <<>> THEN <<>> ELSE Head(ss) \o Flatten(Tail(ss))
\* well-formed UTF-8 (as std::str::from_utf8 decides it): s is a sequence of bytes
RECURSIVE Utf8From(_, _)
Utf8From(s, i) ==
    IF i > Len(s) THEN TRUE
    ELSE LET b == s[i]
             cont(j, lo, hi) == j <= Len(s) /\ s[j] >= lo /\ s[j] <= hi IN
         IF b < 128 THEN Utf8From(s, i + 1)
         ELSE IF b >= 194 /\ b <= 223 THEN cont(i + 1, 128, 191) /\ Utf8From(s, i + 2)
         ELSE IF b = 224 THEN cont(i + 1, 160, 191) /\ cont(i + 2, 128, 191) /\ Utf8From(s, i + 3)
         ELSE IF b = 237 THEN cont(i + 1, 128, 159) /\ cont(i + 2, 128, 191) /\ Utf8From(s, i + 3)
         ELSE IF b >= 225 /\ b <= 239 THEN cont(i + 1, 128, 191) /\ cont(i + 2, 128, 191) /\ Utf8From(s, i + 3)
         ELSE IF b = 240 THEN cont(i + 1, 144, 191) /\ cont(i + 2, 128, 191) /\ cont(i + 3, 128, 191) /\ Utf8From(s, i + 4)
         ELSE IF b >= 241 /\ b <= 243 THEN cont(i + 1, 128, 191) /\ cont(i + 2, 128, 191) /\ cont(i + 3, 128, 191) /\ Utf8From(s, i + 4)
         ELSE IF b = 244 THEN cont(i + 1, 128, 143) /\ cont(i + 2, 128, 191) /\ cont(i + 3, 128, 191) /\ Utf8From(s, i + 4)
         ELSE FALSE
IsUtf8(s) == Utf8From(s, 1)
=============================================================================
