----------------------------- MODULE MC_Reader -----------------------------
(***************************************************************************)
(* Model-checking instance for the reader (C01 C03 C08 C16): all inputs    *)
(* built from <= K markup-significant fragments (plus curated seeds), each *)
(* under a set of configurations, read call by call by the machine         *)
(* XmlRead!ReadEvent until two Eofs have been seen.  Invariants compare    *)
(* every call with the declarative grammar XmlLex.  At the end of every    *)
(* behaviour one REPLAY line (stimulus + expected observations) is printed *)
(* for the Rust harness (leg B).                                           *)
(***************************************************************************)
EXTENDS XmlLex, Alphabet, TLC, Json

CONSTANTS K,          \* max number of fragments
          CfgMode,    \* "neutral" | "default" | "cover" | "all"
          FragMode,   \* "markup" | "bytes"
          Emit,       \* TRUE: print REPLAY lines
          KnownDevs   \* deviations of known findings (for the `alt` expectation)

Inputs == InputsOf(FragMode, K)
Cfgs == CfgsOf(CfgMode)

VARIABLES raw, inp, cfg, st, k, eofs, last, ppos, ref
vars == <<raw, inp, cfg, st, k, eofs, last, ppos, ref>>

Init == /\ raw \in Inputs
        /\ inp = StripBom(raw, FALSE)
        /\ cfg \in Cfgs
        /\ st = InitSt /\ k = 0 /\ eofs = 0 /\ ppos = 0
        /\ last = [k |-> "None", e |-> "", lo |-> 0, hi |-> 0, n |-> 0, xlo |-> 0, xhi |-> 0, after |-> 0]
        /\ ref = RefEvents(inp, cfg)

Call == /\ eofs < 2
        /\ LET r == ReadEvent(inp, cfg, st, {}) IN
           /\ st' = r.st
           /\ last' = Obs(r)
           /\ eofs' = IF r.ev.k = "Eof" THEN eofs + 1 ELSE eofs
        /\ ppos' = BufferPosition(st)
        /\ k' = k + 1
        /\ UNCHANGED <<raw, inp, cfg, ref>>
Next == Call
Spec == Init /\ [][Next]_vars

---------------------------------------------------------------------------
\* C01 + C16: every call returns exactly the next element of the declarative
\* stream (grammar, then documented option transformation), Eof forever after.
Inv_RefMatch == k > 0 => last = RefAt(ref, k, Len(inp))

\* C03: results are events or errors; Eof and syntax errors are final;
\* positions are monotone, bounded, error position <= position; call bound.
Inv_Total ==
    /\ k <= Len(inp) + 3
    /\ BufferPosition(st) >= ppos
    /\ BufferPosition(st) <= Len(inp)
    /\ st.errpos <= BufferPosition(st)
    /\ (k > 0 /\ (last.k = "Eof" \/ (last.k = "Err" /\ last.e \in SyntaxKinds))) => st.ps = "Done"
    /\ st.ps = "Done" => ReadEvent(inp, cfg, st, {}).ev.k = "Eof"

\* C08: with trimming and expansion off, the bytes between the positions
\* before and after a call are exactly the event's markup; Eof at Len(inp).
NoTrim == ~cfg.tts /\ ~cfg.tte /\ ~cfg.eee /\ ~cfg.tmn
Inv_Tiling ==
    (k > 0 /\ NoTrim) =>
        /\ (last.k \notin {"Err", "Eof", "Text"}) => SpanOk(inp, last, ppos, last.after)
        /\ last.k = "Text" => (last.lo = ppos /\ last.hi = last.after)
        /\ (last.k = "Eof" /\ eofs = 1 /\ \A j \in 1..Len(ref) : ref[j].k # "Err" \/ ref[j].e \notin SyntaxKinds)
              => last.after = Len(inp)

\* C04 (static part): the open-element stack is the true nesting of the
\* consumed prefix whatever the switches are.
RECURSIVE NestOf(_, _, _)
NestOf(evs, pos, stack) ==
    IF evs = <<>> \/ Head(evs).after > pos THEN stack
    ELSE LET e == Head(evs) IN
         NestOf(Tail(evs), pos,
                IF e.k = "Start" THEN Append(stack, [lo |-> e.lo, hi |-> e.lo + e.n])
                ELSE IF e.k = "End" /\ stack # <<>> THEN Front(stack) ELSE stack)
Inv_Nesting ==
    st.ps # "InsideEmpty" => st.opened = NestOf(LexEvents(inp), st.off, <<>>)

---------------------------------------------------------------------------
\* Leg B: full observation list of a run, as the harness must see it.
ObsRow(o, ep) == <<o.k, o.e, o.lo, o.hi, o.n, o.xlo, o.xhi, o.after, ep>>
RECURSIVE RunAll(_, _, _, _, _)
RunAll(s, c, state, dev, ne) ==
    IF ne = 2 THEN <<>>
    ELSE LET r == ReadEvent(s, c, state, dev) IN
         <<ObsRow(Obs(r), r.st.errpos)>> \o RunAll(s, c, r.st, dev, IF r.ev.k = "Eof" THEN ne + 1 ELSE ne)

\* C08: what writing every successfully read event produces (reader and writer
\* specifications composed)
RECURSIVE Written(_, _, _, _)
Written(s, c, state, ne) ==
    IF ne = 1 THEN <<>>
    ELSE LET r == ReadEvent(s, c, state, {}) IN
         (IF r.ev.k \in {"Err", "Eof"} THEN <<>> ELSE Render(s, r.ev))
         \o Written(s, c, r.st, IF r.ev.k = "Eof" THEN 1 ELSE 0)

CfgBits(c) == <<Bit(c, "aue"), Bit(c, "cc"), Bit(c, "cen"), Bit(c, "eee"), Bit(c, "tmn"), Bit(c, "tts"), Bit(c, "tte")>>
Inv_Emit ==
    (Emit /\ k = 0) =>
        LET a == RunAll(inp, cfg, InitSt, {}, 0)
            b == RunAll(inp, cfg, InitSt, KnownDevs, 0) IN
        PrintT(<<"REPLAY", ToJson([in |-> raw, bom |-> BomLen(raw, FALSE), cfg |-> CfgBits(cfg), obs |-> a,
                                   wr |-> IF NoTrim THEN Written(inp, cfg, InitSt, 0) ELSE <<>>,
                                   alt |-> IF a = b THEN <<>> ELSE b])>>)
=============================================================================
