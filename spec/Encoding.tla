------------------------------ MODULE Encoding ------------------------------
(***************************************************************************)
(* EncodingRef (src/reader/mod.rs, feature `encoding`): which encoding the *)
(* reader's decoder uses after each event, as a function of the            *)
(* constructor, the first bytes of the input and the XML declaration.      *)
(*   e = [mode, name]   mode in Implicit Explicit BomDetected XmlDetected  *)
(* Byte<->character tables are encoding_rs's and are not specified: the    *)
(* harness transcodes with encoding_rs's encoder, and the trace carries    *)
(* for every event whether the decoded payload equals the original string  *)
(* (axiom Dec(enc, Enc(enc, s)) = s) and whether decoding failed.          *)
(***************************************************************************)
EXTENDS Bytes

EncInit(ctor) == IF ctor = "str" THEN [mode |-> "Explicit", name |-> "UTF-8"]
                 ELSE [mode |-> "Implicit", name |-> "UTF-8"]
CanRefine(e) == e.mode \in {"Implicit", "BomDetected"}

\* encoding::detect_encoding on the first bytes seen: [name, bom]
Sniff(f) ==
    LET st(p) == Len(f) >= Len(p) /\ SubSeq(f, 1, Len(p)) = p IN
    CASE st(<<254, 255>>) -> [name |-> "UTF-16BE", bom |-> 2]
      [] st(<<255, 254>>) -> [name |-> "UTF-16LE", bom |-> 2]
      [] st(<<239, 187, 191>>) -> [name |-> "UTF-8", bom |-> 3]
      [] st(<<0, 60, 0, 63>>) -> [name |-> "UTF-16BE", bom |-> 0]
      [] st(<<60, 0, 63, 0>>) -> [name |-> "UTF-16LE", bom |-> 0]
      [] st(<<60, 63, 120, 109>>) -> [name |-> "UTF-8", bom |-> 0]
      [] OTHER -> [name |-> "", bom |-> 0]

\* ParseState::Init: the sniff refines only a refinable state; the BOM is removed in any case
EncDetect(e, first) ==
    LET s == Sniff(first) IN IF s.name # "" /\ CanRefine(e) THEN [mode |-> "BomDetected", name |-> s.name] ELSE e
\* emit_question_mark on a Decl whose encoding label resolves to `label` ("" = no/unknown label)
EncDecl(e, label) == IF label # "" /\ CanRefine(e) THEN [mode |-> "XmlDetected", name |-> label] ELSE e
=============================================================================
