----------------------------- MODULE SerdeTypes -----------------------------
(***************************************************************************)
(* Schema registry: the type family of harness/src/family.rs in the        *)
(* schema language of SerdeModel.tla, and finite value generators.         *)
(* (The harness checks that serde_json accepts every generated value for   *)
(* the Rust type of the same name, so the two descriptions cannot drift.)  *)
(***************************************************************************)
EXTENDS SerdeModel

B(str) == str   \* byte strings are written as tuples below
STR == [t |-> "str"]
NUM == [t |-> "num"]
Opt(T) == [t |-> "opt", of |-> T]
List(T) == [t |-> "list", of |-> T]
SList(T) == [t |-> "slist", of |-> T]
Fld(key, kind, ty) == [key |-> key, kind |-> kind, ty |-> ty]
Struct(fs) == [t |-> "struct", fields |-> fs]
Var(name, kind, ty) == [name |-> name, kind |-> kind, ty |-> ty]

\* names as bytes
n_one == <<111,110,101>>  n_two == <<116,119,111>>  n_field == <<102,105,101,108,100>>
n_optional == <<111,112,116,105,111,110,97,108>>  n_attribute == <<97,116,116,114,105,98,117,116,101>>
n_non_optional == <<110,111,110,95,111,112,116,105,111,110,97,108>>
n_One == <<79,110,101>>  n_Two == <<84,119,111>>  n_Three == <<84,104,114,101,101>>  n_text == <<36,116,101,120,116>>
n_item == <<105,116,101,109>>  n_k == <<107>>  n_l == <<108>>  n_a == <<97>>  n_b == <<98>>  n_c == <<99>>  n_d == <<100>>
n_x == <<120>>  n_m == <<109>>  n_attr == <<97,116,116,114>>  n_Alpha == <<65,108,112,104,97>>  n_Beta == <<66,101,116,97>>
n_value == <<36,118,97,108,117,101>>

CHOICE == [t |-> "enum", variants |-> <<Var(n_One, "unit", STR), Var(n_Two, "unit", STR), Var(n_text, "text", STR)>>]
ONE_S == Struct(<<Fld(n_a, "attr", STR)>>)
CHOICE2 == [t |-> "enum", variants |-> <<Var(n_One, "struct", ONE_S), Var(n_Two, "newtype", STR), Var(n_Three, "unit", STR)>>]
UNITENUM == [t |-> "unit", names |-> {n_Alpha, n_Beta}]
ITEM == Struct(<<Fld(n_k, "attr", STR), Fld(n_text, "text", STR)>>)
INNER3 == Struct(<<Fld(n_attr, "attr", STR), Fld(n_c, "elem", Opt(STR))>>)        \* innermost: c always None
INNER2 == Struct(<<Fld(n_attr, "attr", STR), Fld(n_c, "elem", Opt(INNER3))>>)
INNER1 == Struct(<<Fld(n_attr, "attr", STR), Fld(n_c, "elem", Opt(INNER2))>>)
n_items == <<105,116,101,109,115>>  n_Name == <<78,97,109,101>>  n_Num == <<78,117,109>>
CHOICE3 == [t |-> "enum", variants |-> <<Var(n_One, "unit", STR), Var(n_Name, "newtype", STR), Var(n_Num, "newtype", NUM), Var(n_text, "text", STR)>>]
n_n == <<110>>  n_id == <<105,100>>  n_hashes == <<104,97,115,104,101,115>>  n_size == <<115,105,122,101>>
n_flag == <<102,108,97,103>>  n_ratio == <<114,97,116,105,111>>  n_ch == <<99,104>>
BOOL == [t |-> "bool"]
FLOAT == [t |-> "float"]
BIGNUMS == { <<48>>, <<57,50,50,51,51,55,50,48,51,54,56,53,52,55,55,53,56,48,56>>, <<49,56,52,52,54,55,52,52,48,55,51,55,48,57,53,53,49,54,49,53>> }   \* 0, 2^63, 2^64-1
NEGNUMS == { <<48>>, <<45,57,50,50,51,51,55,50,48,51,54,56,53,52,55,55,53,56,48,56>>, <<57,50,50,51,51,55,50,48,51,54,56,53,52,55,55,53,56,48,55>> }      \* 0, -2^63, 2^63-1
NODE2 == Struct(<<Fld(n_a, "elem", List(STR)), Fld(n_b, "elem", List(STR))>>)
NEST == Struct(<<Fld(n_a, "elem", List(STR))>>)
SELFNEST == Struct(<<Fld(n_b, "elem", List(STR))>>)      \* an item whose own children carry the item's name

F32T == Struct(<<Fld(n_a, "elem", List(STR)), Fld(n_b, "elem", List(STR)), Fld(<<111>>, "elem", Opt(ITEM))>>)

TypeOf(name) ==
    CASE name = "F01" -> Struct(<<Fld(n_one, "attr", STR), Fld(n_two, "attr", NUM)>>)
      [] name = "F02" -> Struct(<<Fld(n_one, "elem", STR), Fld(n_two, "elem", NUM)>>)
      [] name = "F03" -> Struct(<<Fld(n_field, "attr", STR), Fld(n_field, "elem", STR)>>)
      [] name = "F04" -> Struct(<<Fld(n_optional, "attr", Opt(STR))>>)
      [] name = "F05" -> Struct(<<Fld(n_optional, "elem", Opt(STR)), Fld(n_attribute, "attr", NUM), Fld(n_non_optional, "elem", STR)>>)
      [] name = "F07" -> Struct(<<Fld(n_field, "attr", STR), Fld(n_value, "value", CHOICE)>>)
      [] name = "F08" -> Struct(<<Fld(n_field, "elem", STR), Fld(n_value, "value", CHOICE2)>>)
      [] name = "F11" -> Struct(<<Fld(n_item, "elem", List(ITEM))>>)
      [] name = "F15" -> Struct(<<Fld(n_attribute, "attr", STR), Fld(n_value, "value", List(CHOICE))>>)
      [] name = "F16" -> Struct(<<Fld(n_l, "attr", SList(NUM)), Fld(n_text, "text", SList(STR))>>)
      [] name = "F17" -> Struct(<<Fld(n_text, "text", STR)>>)
      [] name = "F18" -> Struct(<<Fld(n_field, "elem", UNITENUM), Fld(n_a, "attr", UNITENUM)>>)
      [] name = "F19" -> Struct(<<Fld(n_a, "elem", INNER1), Fld(n_b, "elem", INNER1)>>)
      [] name = "F20" -> Struct(<<Fld(n_m, "elem", [t |-> "map"])>>)
      [] name = "F22" -> Struct(<<Fld(n_a, "elem", List(STR)), Fld(n_b, "elem", List(ITEM)), Fld(n_x, "attr", NUM), Fld(n_c, "elem", STR)>>)
      [] name = "F23" -> Struct(<<Fld(n_a, "elem", List(STR)), Fld(n_b, "elem", List(NEST)), Fld(n_d, "elem", List(NUM))>>)
      [] name = "F24" -> Struct(<<Fld(n_items, "attr", SList(STR)), Fld(n_one, "attr", STR)>>)
      [] name = "F25" -> Struct(<<Fld(n_value, "value", List(CHOICE3))>>)
      [] name = "F26" -> Struct(<<Fld(n_a, "elem", List(NODE2)), Fld(n_n, "elem", STR), Fld(n_b, "elem", List(STR))>>)
      [] name = "F27" -> Struct(<<Fld(n_id, "attr", NUM), Fld(n_hashes, "attr", SList(NUM)), Fld(n_size, "elem", NUM), Fld(n_text, "text", NUM)>>)
      [] name = "F28" -> Struct(<<Fld(n_flag, "attr", BOOL), Fld(n_ratio, "attr", FLOAT), Fld(n_ch, "elem", STR), Fld(n_flag, "elem", List(BOOL)), Fld(<<114>>, "elem", FLOAT)>>)
            \* (no $text next to child elements: mixed content is documented only through $value choices)
      [] name = "F29" -> Struct(<<Fld(n_a, "elem", List(STR)), Fld(n_b, "elem", List(SELFNEST)), Fld(n_d, "elem", List(NUM))>>)
      [] name = "F30" -> Struct(<<Fld(n_a, "attr", STR), Fld(n_l, "attr", SList(STR)), Fld(<<101>>, "elem", STR), Fld(n_item, "elem", List(STR))>>)
      [] name = "F31" -> Struct(<<Fld(n_k, "attr", STR), Fld(n_text, "text", STR)>>)
      [] name = "F32" -> F32T
      [] name = "F33" -> Struct(<<Fld(<<119>>, "elem", F32T)>>)
      [] name = "F34" -> Struct(<<Fld(<<112>>, "elem", List(NUM)), Fld(<<120>>, "elem", List(NUM)), Fld(<<113>>, "elem", List(NUM))>>)   \* p is a PAIR (fixed size)
            \* list items that hold a STRUCT-valued (non-list) field: reading it re-enters the top-level struct path of the deserializer
            \* list items that collect their content in a `$value` list of their own, next to another list
      [] name = "F36" -> Struct(<<Fld(n_a, "elem", List(Struct(<<Fld(n_value, "value", List(CHOICE))>>))), Fld(n_b, "elem", List(NUM))>>)
            \* two lists whose element names are prefixes of each other ( a / ab ), next to a third one
      [] name = "F37" -> Struct(<<Fld(n_a, "elem", List(STR)), Fld(<<97, 98>>, "elem", List(STR)), Fld(n_d, "elem", List(NUM))>>)
      [] name = "F35" -> Struct(<<Fld(n_a, "elem", List(STR)), Fld(n_b, "elem", List(Struct(<<Fld(<<109>>, "elem", Struct(<<Fld(<<120>>, "elem", STR)>>))>>))), Fld(n_d, "elem", List(NUM))>>)
      [] name = "H01" -> Struct(<<Fld(n_m, "elem", [t |-> "map"])>>)
      [] name = "H07" -> Struct(<<Fld(n_value, "value", List(Opt(CHOICE)))>>)     \* items that may write nothing inside mixed content
      [] OTHER -> [t |-> "unknown"]       \* outside the schema language: the model has no opinion (SerTree = Fail)
RootBytes(name) ==
    CASE name = "F01" -> <<70,48,49>>
      [] name = "F02" -> <<70,48,50>>
      [] name = "F03" -> <<70,48,51>>
      [] name = "F04" -> <<70,48,52>>
      [] name = "F05" -> <<70,48,53>>
      [] name = "F07" -> <<70,48,55>>
      [] name = "F08" -> <<70,48,56>>
      [] name = "F11" -> <<70,49,49>>
      [] name = "F15" -> <<70,49,53>>
      [] name = "F16" -> <<70,49,54>>
      [] name = "F17" -> <<70,49,55>>
      [] name = "F18" -> <<70,49,56>>
      [] name = "F19" -> <<70,49,57>>
      [] name = "F20" -> <<70,50,48>>
      [] name = "F22" -> <<70,50,50>>
      [] name = "F23" -> <<70,50,51>>
      [] name = "F24" -> <<70,50,52>>
      [] name = "F25" -> <<70,50,53>>
      [] name = "F26" -> <<70,50,54>>
      [] name = "F29" -> <<70,50,57>>
      [] name = "F35" -> <<70,51,53>>
      [] name = "F37" -> <<70,51,55>>
      [] name = "F36" -> <<70,51,54>>
      [] name = "F30" -> <<70,51,48>>
      [] name = "F31" -> <<70,51,49>>
      [] name = "F32" -> <<70,51,50>>
      [] name = "F33" -> <<70,51,51>>
      [] name = "F34" -> <<70,51,52>>
      [] name = "F27" -> <<70,50,55>>
      [] name = "F28" -> <<70,50,56>>
      [] name = "H01" -> <<72,48,49>>
      [] name = "H02" -> <<72,48,50>>
      [] name = "H07" -> <<72,48,55>>
      [] name = "H05" -> <<72,48,53>>
      [] name = "H06" -> <<72,48,54>>
      [] OTHER -> <<114>>

\* JSON key of a field: "@key" for attributes, the key itself otherwise ($text / $value are keys already)
JKey(f) == IF f.kind = "attr" THEN <<64>> \o f.key ELSE f.key

---------------------------------------------------------------------------
\* value generators.  Strings: round-trippable pool (no leading/trailing XML
\* whitespace - the deserializer is documented to trim) and hostile additions.
\* (FORM FEED is not XML white space: a string that starts or ends with it is inside the documented domain)
StrRT == { <<12, 112, 12>>, <<196,162,196,166,196,167,196,188,196,190>>, <<97, 239, 187, 191, 98>>, <<59, 60>>, <<38, 59, 38>>, <<>>, <<97>>, <<60>>, <<38>>, <<34>>, <<39>>, <<97, 32, 98>>, <<195, 169>>, <<93, 93, 62>>, <<38, 97, 109, 112, 59>>, <<45, 45>> }
StrSmall == { <<>>, <<97>>, <<60>> }
StrHostile == StrRT \cup { <<32>>, <<32, 97>>, <<10>>, <<0>>, <<62>>, <<60, 97, 62>> }
\* items of space-separated lists: non-empty, no XML whitespace (src/de/mod.rs docs)
StrItem == { <<97>>, <<60>>, <<38>>, <<195, 169>>, <<34>>, <<97, 12, 98>>, <<97, 9, 98>> }      \* (FORM FEED is an ordinary character of an item; an inner TAB is written as a character reference and only the blank separates items)
\* In ATTRIBUTE position the serializer writes white space inside an item as character references and the deserializer splits
\* before unescaping, so such items come back; in text position the text is unescaped first (the module documentation says
\* list items never contain white space), so they are generated for attribute lists only.
\* items of a TEXT list that end / start with TAB or CR: the serializer writes these as character references, which protects
\* them from the trimming of the text (trimming happens before references are expanded)
StrItemEdge == { <<97, 9>>, <<13, 97>> }
StrItemWs == { <<97, 13, 98>>, <<32>>, <<9, 10>> }
Nums == { <<48>>, <<55>>, <<52,50,57,52,57,54,55,50,57,53>> }

S(x) == [s |-> x]
Nm(x) == [n |-> x]
None == [z |-> 0]
Seqs(S0, n) == UNION {[1..k -> S0] : k \in 0..n}
A(xs) == [a |-> xs]
O(pairs) == [o |-> pairs]

\* a $text choice with the empty string writes no text node at all (an empty text node does not
\* exist in XML), so it is outside the round-trippable domain: only non-empty text choices
ChoiceVals(Pl) == {[u |-> n_One], [u |-> n_Two]} \cup {[v |-> n_text, x |-> S(s)] : s \in Pl \ {<<>>}}
ItemVals(Pl) == {O(<<<<<<64>> \o n_k, S(k)>>, <<n_text, S(t)>>>>) : k \in {<<>>, <<60>>}, t \in Pl}
IsTextItem(x) == "v" \in DOMAIN x /\ x.v = n_text
NoAdjacentText(xs) == \A i \in 1..(Len(xs) - 1) : ~(IsTextItem(xs[i]) /\ IsTextItem(xs[i + 1]))

F32Vals == {O(<<<<n_a, A(xs)>>, <<n_b, A(ys)>>, <<<<111>>, x>>>>) :
               xs \in Seqs({S(<<97>>)}, 2), ys \in Seqs({S(<<60>>)}, 2), x \in {None} \cup ItemVals({<<97>>})}

ValuesOf(name, Pl, mode) ==       \* mode "rt": the documented round-trippable domain; "all": everything generated
    CASE name = "F01" -> {O(<<<<<<64>> \o n_one, S(a)>>, <<<<64>> \o n_two, Nm(b)>>>>) : a \in Pl, b \in Nums}
      [] name = "F02" -> {O(<<<<n_one, S(a)>>, <<n_two, Nm(b)>>>>) : a \in Pl, b \in Nums}
      [] name = "F03" -> {O(<<<<<<64>> \o n_field, S(a)>>, <<n_field, S(b)>>>>) : a \in Pl, b \in Pl}
      [] name = "F04" -> {O(<<<<<<64>> \o n_optional, x>>>>) : x \in {None} \cup {S(a) : a \in Pl}}
      [] name = "F05" -> {O(<<<<n_optional, x>>, <<<<64>> \o n_attribute, Nm(b)>>, <<n_non_optional, S(c)>>>>) :
                            x \in {None} \cup {S(a) : a \in StrSmall}, b \in Nums, c \in Pl}
      [] name = "F07" -> {O(<<<<<<64>> \o n_field, S(a)>>, <<n_value, c>>>>) : a \in StrSmall, c \in ChoiceVals(Pl)}
      [] name = "F08" -> {O(<<<<n_field, S(a)>>, <<n_value, c>>>>) : a \in StrSmall,
                            c \in {[u |-> n_Three]} \cup {[v |-> n_Two, x |-> S(s)] : s \in Pl}
                                  \cup {[v |-> n_One, x |-> O(<<<<<<64>> \o n_a, S(s)>>>>)] : s \in Pl}}
      [] name = "F11" -> {O(<<<<n_item, A(xs)>>>>) : xs \in Seqs(ItemVals(StrSmall \cup {<<38>>}), 2)}
      [] name = "F15" -> {O(<<<<<<64>> \o n_attribute, S(a)>>, <<n_value, A(xs)>>>>) :
                            a \in {<<>>, <<60>>}, xs \in {y \in Seqs(ChoiceVals({<<97>>, <<60>>}), 3) : mode = "all" \/ NoAdjacentText(y)}}
      [] name = "F16" -> {O(<<<<<<64>> \o n_l, A(xs)>>, <<n_text, A(ys)>>>>) :
                            xs \in Seqs({Nm(b) : b \in Nums}, 2), ys \in Seqs({S(s) : s \in StrItem \cup StrItemEdge}, 2)}
      [] name = "F17" -> {O(<<<<n_text, S(a)>>>>) : a \in Pl}
      [] name = "F18" -> {O(<<<<n_field, [u |-> a]>>, <<<<64>> \o n_a, [u |-> b]>>>>) : a \in {n_Alpha, n_Beta}, b \in {n_Alpha, n_Beta}}
      [] name = "F19" ->
            LET In3 == {O(<<<<<<64>> \o n_attr, S(a)>>, <<n_c, None>>>>) : a \in {<<97>>, <<60>>}}
                In2 == {O(<<<<<<64>> \o n_attr, S(a)>>, <<n_c, x>>>>) : a \in {<<>>, <<38>>}, x \in {None} \cup In3}
                In1 == {O(<<<<<<64>> \o n_attr, S(a)>>, <<n_c, x>>>>) : a \in {<<>>, <<34>>}, x \in {None} \cup In2} IN
            {O(<<<<n_a, p>>, <<n_b, q>>>>) : p \in In1, q \in In1}
      [] name = "F20" -> {O(<<<<n_m, O(ps)>>>>) : ps \in {<<>>} \cup {<<<<<<107, 49>>, S(a)>>>> : a \in Pl}
                            \cup {<<<<<<95, 107>>, S(b)>>, <<<<107, 49>>, S(a)>>>> : a \in StrSmall, b \in StrSmall}   \* BTreeMap: keys in byte order
                            \* name-like keys with every kind of name character after the first: '-', '.', digit, non-ASCII (middle dot, e-acute)
                            \cup {<<<<<<97, 45, 98>>, S(a)>>, <<<<97, 46, 98>>, S(b)>>, <<<<97, 49>>, S(a)>>, <<<<97, 194, 183>>, S(b)>>, <<<<97, 195, 169>>, S(a)>>>> : a \in {<<97>>, <<60>>}, b \in {<<>>, <<38>>}}}
      [] name = "F22" -> {O(<<<<n_a, A(xs)>>, <<n_b, A(ys)>>, <<<<64>> \o n_x, Nm(<<55>>)>>, <<n_c, S(c)>>>>) :
                            xs \in Seqs({S(<<97>>), S(<<60>>)}, 2), ys \in Seqs(ItemVals({<<>>, <<97>>}), 2), c \in {<<>>, <<38>>}}
      [] name = "F23" -> {O(<<<<n_a, A(xs)>>, <<n_b, A(ys)>>, <<n_d, A(zs)>>>>) :
                            xs \in Seqs({S(<<97>>), S(<<60>>)}, 2),
                            ys \in Seqs({O(<<<<n_a, A(w)>>>>) : w \in Seqs({S(<<97>>)}, 1)}, 2), zs \in Seqs({Nm(<<55>>)}, 2)}
      [] name = "F24" -> {O(<<<<<<64>> \o n_items, A(xs)>>, <<<<64>> \o n_one, S(a)>>>>) :
                            xs \in Seqs({S(s) : s \in StrItem \cup StrItemWs \cup {<<39>>, <<62>>}}, 2), a \in {<<>>, <<34>>, <<60>>}}
      [] name = "F25" ->
            LET C3 == {[u |-> n_One]} \cup {[v |-> n_Name, x |-> S(s)] : s \in {<<>>, <<97>>, <<60>>}}
                      \cup {[v |-> n_Num, x |-> Nm(<<55>>)]} \cup {[v |-> n_text, x |-> S(s)] : s \in {<<97>>, <<38>>}} IN
            {O(<<<<n_value, A(xs)>>>>) : xs \in {y \in Seqs(C3, 3) : mode = "all" \/ NoAdjacentText(y)}}
      [] name = "F26" ->
            LET N2 == {O(<<<<n_a, A(xs)>>, <<n_b, A(ys)>>>>) : xs \in Seqs({S(<<97>>)}, 1), ys \in Seqs({S(<<60>>)}, 2)} IN
            {O(<<<<n_a, A(xs)>>, <<n_n, S(<<97>>)>>, <<n_b, A(ys)>>>>) : xs \in Seqs(N2, 2), ys \in Seqs({S(<<98>>)}, 2)}
      [] name = "F27" -> {O(<<<<<<64>> \o n_id, Nm(a)>>, <<<<64>> \o n_hashes, A(xs)>>, <<n_size, Nm(b)>>, <<n_text, Nm(c)>>>>) :
                            a \in BIGNUMS, xs \in Seqs({Nm(x) : x \in BIGNUMS}, 2), b \in BIGNUMS, c \in NEGNUMS}
      [] name = "F28" ->
            LET Fl == {<<49, 46, 53>>, <<45, 48, 46, 50, 53>>, <<49, 48, 48>>}          \* 1.5  -0.25  100
                Bl == {[b |-> 0], [b |-> 1]} IN
            {O(<<<<<<64>> \o n_flag, a>>, <<<<64>> \o n_ratio, [f |-> r]>>, <<n_ch, S(c)>>, <<n_flag, A(xs)>>, <<<<114>>, [f |-> u]>>>>) :
                a \in Bl, r \in Fl, c \in {<<97>>, <<60>>, <<38>>, <<195, 169>>, <<34>>}, xs \in Seqs(Bl, 2), u \in Fl}
      [] name = "F29" -> {O(<<<<n_a, A(xs)>>, <<n_b, A(ys)>>, <<n_d, A(zs)>>>>) :
                            xs \in Seqs({S(<<97>>)}, 2),
                            ys \in Seqs({O(<<<<n_b, A(w)>>>>) : w \in {<<S(<<120>>)>>, <<S(<<120>>), S(<<60>>)>>}}, 2), zs \in Seqs({Nm(<<55>>)}, 2)}
      [] name = "F36" -> {O(<<<<n_a, A(xs)>>, <<n_b, A(zs)>>>>) :
                            xs \in Seqs({O(<<<<n_value, A(w)>>>>) : w \in {<<[u |-> n_One]>>, <<[u |-> n_Two], [u |-> n_One]>>}}, 2),
                            zs \in Seqs({Nm(<<55>>), Nm(<<49>>)}, 2)}
      [] name = "F37" -> {O(<<<<n_a, A(xs)>>, <<<<97, 98>>, A(ys)>>, <<n_d, A(zs)>>>>) :
                            xs \in Seqs({S(<<120>>)}, 2), ys \in Seqs({S(<<121>>), S(<<60>>)}, 2), zs \in Seqs({Nm(<<55>>)}, 1)}
      [] name = "F35" -> {O(<<<<n_a, A(xs)>>, <<n_b, A(ys)>>, <<n_d, A(zs)>>>>) :
                            xs \in Seqs({S(<<97>>)}, 2),
                            ys \in Seqs({O(<<<<<<109>>, O(<<<<<<120>>, S(w)>>>>)>>>>) : w \in {<<120>>, <<60>>}}, 2), zs \in Seqs({Nm(<<55>>)}, 2)}
      \* strings that reach the serializer through collect_str (Display), in every position a simple value can take
      [] name = "F30" -> {O(<<<<<<64>> \o n_a, S(a)>>, <<<<64>> \o n_l, A(xs)>>, <<<<101>>, S(e)>>, <<n_item, A(ys)>>>>) :
                            a \in {<<>>, <<60>>, <<34>>, <<38>>}, xs \in Seqs({S(s) : s \in {<<97>>, <<34>>, <<60>>}}, 2),
                            e \in {<<97>>, <<60>>, <<38>>}, ys \in Seqs({S(<<62>>), S(<<38>>)}, 1)}
      [] name = "F31" -> {O(<<<<<<64>> \o n_k, S(a)>>, <<n_text, S(t)>>>>) : a \in {<<>>, <<60>>, <<34>>, <<39>>}, t \in Pl}
      [] name = "H01" -> {O(<<<<n_m, O(ps)>>>>) : ps \in {<<<<k, S(<<97>>)>>>> : k \in {<<>>, <<60>>, <<97, 32, 98>>, <<49, 97>>, <<97>>, <<97, 62>>, <<195, 169>>, <<45, 97>>, <<97, 47>>, <<97, 47, 98>>, <<97, 34>>, <<97, 61>>, <<97, 38>>}}}
      \* outside the schema language (C13 only): Option without skip, nested sequences, unit variants named like markup
      [] name = "H02" -> {O(<<<<<<111>>, x>>, <<<<110>>, A(ys)>>>>) : x \in {None, S(<<60>>)},
                            ys \in Seqs({A(zs) : zs \in Seqs({S(<<97>>), S(<<60>>)}, 2)}, 2)}
      [] name = "F32" -> F32Vals
      [] name = "F33" -> {O(<<<<<<119>>, x>>>>) : x \in F32Vals}
      [] name = "F34" -> {O(<<<<<<112>>, A(<<Nm(<<49>>), Nm(<<50>>)>>)>>, <<<<120>>, A(xs)>>, <<<<113>>, A(ys)>>>>) :
                            xs \in Seqs({Nm(<<55>>)}, 2), ys \in Seqs({Nm(<<53>>)}, 2)}
      [] name = "H07" ->
            LET It == {None, [u |-> n_One], [v |-> n_text, x |-> S(<<97, 98, 99>>)]} IN
            \* (two text items separated only by absent items would be written as one text: outside what can be told apart)
            {O(<<<<n_value, A(xs)>>>>) : xs \in {y \in Seqs(It, 4) : NoAdjacentText(SelectSeq(y, LAMBDA i : i # None))}}
      [] name = "H05" -> {O(<<<<n_value, [u |-> nm]>>>>) : nm \in {<<60>>, <<97, 32, 98>>, <<>>, <<111, 107>>}}
      [] name = "H06" -> {O(<<<<<<102>>, [u |-> a]>>, <<<<64, 97>>, [u |-> b]>>>>) :
                            a \in {<<60>>, <<97, 32, 98>>, <<>>, <<111, 107>>}, b \in {<<60>>, <<97, 32, 98>>, <<>>, <<111, 107>>}}
      [] OTHER -> {}

\* root tags passed to the serializer (to_string_with_root); the default is the type name
HostileRoots == { <<120, 46, 121>>, <<120, 45, 49>>, <<120, 194, 183>>, <<97, 47>>, <<97, 47, 98>>, <<>>, <<60>>, <<97, 32, 98>>, <<49, 97>>, <<97, 62>>, <<195, 169>>, <<120, 58, 121>>, <<45, 97>>, <<114>> }

RTTypes == {"F01", "F02", "F03", "F04", "F05", "F07", "F08", "F11", "F15", "F16", "F17", "F18", "F19", "F20", "F22", "F23", "F24", "F25", "F26", "F27", "F28", "F29", "F30", "F31", "F32", "F33", "F34", "F35", "F36", "F37"}
=============================================================================
