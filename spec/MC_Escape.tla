----------------------------- MODULE MC_Escape -----------------------------
(***************************************************************************)
(* C10: every string of <= N symbols over                                  *)
(*   < > & ' " # x ; 1 0 a l t SP, e-acute and five two-byte characters    *)
(*   whose continuation byte is a markup byte + 0x80                       *)
(* grown symbol by symbol (so that TLC's workers share the enumeration).   *)
(* Theorems about Escape.tla checked as invariants; one REPLAY line per    *)
(* string for the harness.                                                 *)
(***************************************************************************)
EXTENDS Escape, TLC, Json

CONSTANTS N, Emit, Mode     \* Mode: "general" | "ref" (strings that start with "&#": signs, leading zeros, radix prefix, missing ';')
Symbols == { <<60>>, <<62>>, <<38>>, <<39>>, <<34>>, <<35>>, <<120>>, <<59>>, <<49>>, <<48>>,
             <<97>>, <<108>>, <<116>>, <<32>>, <<195, 169>>,
             \* characters whose UTF-8 continuation byte is a markup byte + 0x80:  u-umlaut (BC ~ '<'), broken bar (A6 ~ '&'),
             \* section sign (A7 ~ apostrophe), three quarters (BE ~ '>'), cent (A2 ~ quote)
             <<195, 188>>, <<194, 166>>, <<194, 167>>, <<194, 190>>, <<194, 162>> }
RefSymbols == { <<120>>, <<88>>, <<48>>, <<49>>, <<57>>, <<43>>, <<45>>, <<59>>, <<97>>, <<70>> }     \* x X 0 1 9 + - ; a F
Levels == {"full", "partial", "minimal", "item"}

VARIABLES s, n
evars == <<s, n>>
\* Mode "name": names that START like a predefined one (&lt &gt &amp &apos &quot, and shorter / other beginnings) continued
\* by a few more symbols: only the five exact names are entities
\* (and names longer than 32 bytes whose 33rd byte lies inside a two-byte character - or just behind one)
LongName1 == <<38>> \o [i \in 1..31 |-> 108] \o <<195, 169>>
LongName2 == <<38>> \o [i \in 1..30 |-> 108] \o <<195, 169>> \o <<108, 108>>
NamePrefixes == { LongName1, LongName2, <<38>>, <<38,108>>, <<38,108,116>>, <<38,103,116>>, <<38,97,109>>, <<38,97,109,112>>, <<38,97,112,111,115>>, <<38,113,117,111,116>>, <<38,113,117,111>> }
NameSymbols == { <<108>>, <<116>>, <<97>>, <<101>>, <<59>>, <<35>>, <<112>>, <<38>> }      \* l t a e ; # p &
Init == s \in (IF Mode = "ref" THEN {<<38, 35>>} ELSE IF Mode = "name" THEN NamePrefixes ELSE {<<>>}) /\ n = 0
Next == n < N /\ \E y \in (IF Mode = "ref" THEN RefSymbols ELSE IF Mode = "name" THEN NameSymbols ELSE Symbols) : s' = s \o y /\ n' = n + 1
Spec == Init /\ [][Next]_evars

\* unescaping the escaped form returns the string, at every level
Inv_RoundTrip == \A lv \in Levels : Unesc(Esc(s, lv)) = [ok |-> TRUE, out |-> s, e |-> ""]
\* the escaped form is free of the characters the level removes
Inv_Safe == \A lv \in Levels : SafeEscaped(Esc(s, lv), lv)
\* a string without '&' is returned unchanged
Inv_NoAmp == ~HasAmp(s) => Unesc(s) = [ok |-> TRUE, out |-> s, e |-> ""]
\* an '&' that is not closed by ';' before the next '&' (or the end) is an error,
\* and success means every '&' opened a reference
RECURSIVE AllClosed(_, _)
AllClosed(t, p) ==
    LET a == FindByte(t, p, Len(t), AMP) IN
    IF a >= Len(t) THEN TRUE
    ELSE LET e == FindAmpSemi(t, a + 1, Len(t)) IN e < Len(t) /\ At(t, e) = SEMI /\ AllClosed(t, e + 1)
Inv_Closed == Unesc(s).ok => AllClosed(s, 0)
\* unescaping is stable: escaping the result and unescaping again gives the same result
Inv_Stable == Unesc(s).ok => Unesc(Esc(Unesc(s).out, "full")).out = Unesc(s).out

\* a custom resolver changes nothing for strings without its names, and its replacement is never scanned again
Inv_Custom == (Unesc(s).ok => UnescCustom(s).ok) /\ (UnescCustom(s).ok /\ ~Unesc(s).ok => \E i \in 1..Len(s) : s[i] = 97)

\* a catch-all resolver cannot change or rescue numeric references
Inv_Lenient == (UnescLenient(s).ok /\ Unesc(s).ok /\ ~(\E i \in 1..(Len(s) - 1) : s[i] = 38 /\ s[i + 1] # 35)) => UnescLenient(s).out = Unesc(s).out

Inv_Emit ==
    Emit => PrintT(<<"REPLAY", ToJson([s |-> s, full |-> Esc(s, "full"), partial |-> Esc(s, "partial"),
                                       minimal |-> Esc(s, "minimal"),
                                       ok |-> IF Unesc(s).ok THEN 1 ELSE 0, out |-> Unesc(s).out, e |-> Unesc(s).e,
                                       okx |-> IF UnescCustom(s).ok THEN 1 ELSE 0, outx |-> UnescCustom(s).out,
                                       okl |-> IF UnescLenient(s).ok THEN 1 ELSE 0, outl |-> UnescLenient(s).out])>>)
=============================================================================
