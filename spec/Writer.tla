------------------------------- MODULE Writer -------------------------------
(***************************************************************************)
(* Writer::write_event with Indentation (src/writer.rs,                    *)
(* src/writer/async_tokio.rs) and the event constructors of                *)
(* src/events/mod.rs (BytesStart::new / push_attribute / extend_attributes *)
(* / clear_attributes / set_name, BytesText::new, BytesCData::escaped,     *)
(* BytesDecl::new, BytesPI::new, BytesEnd::new) and ElementWriter.         *)
(* A written event is [k, b]: kind and payload bytes as handed to the      *)
(* writer.  w = [out, slb, len] : bytes written, should_line_break,        *)
(* current indent length.  ind = [on, ch, size].                           *)
(***************************************************************************)
EXTENDS XmlLex, Attrs, Escape

WInit == [out |-> <<>>, slb |-> FALSE, len |-> 0]
NoIndent == [on |-> FALSE, ch |-> 32, size |-> 0]

WOpen(k) == CASE k = "Start" -> <<60>> [] k = "Empty" -> <<60>> [] k = "End" -> <<60, 47>>
              [] k = "Comment" -> <<60, 33, 45, 45>> [] k = "CData" -> <<60>> \o S_BCDATA
              [] k = "PI" -> <<60, 63>> [] k = "Decl" -> <<60, 63>>
              [] k = "DocType" -> <<60>> \o S_BDOCT \o <<32>> [] OTHER -> <<>>
WClose(k) == CASE k = "Start" -> <<62>> [] k = "Empty" -> <<47, 62>> [] k = "End" -> <<62>>
               [] k = "Comment" -> <<45, 45, 62>> [] k = "CData" -> <<93, 93, 62>>
               [] k = "PI" -> <<63, 62>> [] k = "Decl" -> <<63, 62>> [] k = "DocType" -> <<62>> [] OTHER -> <<>>
RenderW(e) == IF e.k = "Eof" THEN <<>> ELSE WOpen(e.k) \o e.b \o WClose(e.k)

Rep(ch, n) == [i \in 1..n |-> ch]
\* kinds written through write_wrapped (they receive the indentation)
Wrapped == {"Start", "End", "Empty", "Comment", "Decl", "PI", "DocType"}

WWrite(w, e, ind) ==
    LET len1 == IF ind.on /\ e.k = "End" THEN (IF w.len >= ind.size THEN w.len - ind.size ELSE 0) ELSE w.len   \* shrink saturates
        pre  == IF ind.on /\ w.slb /\ e.k \in Wrapped THEN <<10>> \o Rep(ind.ch, len1) ELSE <<>>
        len2 == IF ind.on /\ e.k = "Start" THEN len1 + ind.size ELSE len1 IN
    [out |-> w.out \o pre \o RenderW(e), slb |-> e.k \notin {"Text", "CData"}, len |-> len2]

RECURSIVE WWriteAll(_, _, _, _)
WWriteAll(w, evs, i, ind) == IF i > Len(evs) THEN w ELSE WWriteAll(WWrite(w, evs[i], ind), evs, i + 1, ind)
Written(evs, ind) == WWriteAll(WInit, evs, 1, ind).out

---------------------------------------------------------------------------
\* C19, declaratively: the indented output is the plain output with "\n" +
\* indent inserted immediately before a wrapped markup event that is not the
\* first event and does not follow Text or CData.  Depth saturates at zero.
RECURSIVE DepthBefore(_, _, _)      \* indent length in force when event i is written
DepthBefore(evs, i, size) ==
    IF i = 1 THEN (IF evs[1].k = "End" THEN 0 ELSE 0)
    ELSE LET d == DepthBefore(evs, i - 1, size)
             afterPrev == IF evs[i - 1].k = "Start" THEN d + size ELSE d IN
         IF evs[i].k = "End" THEN (IF afterPrev >= size THEN afterPrev - size ELSE 0) ELSE afterPrev
\* NB: DepthBefore(i) already includes the shrink performed by an End at i, and
\* for i-1 = End the value d is the shrunk one.
RECURSIVE IndentedFrom(_, _, _)
IndentedFrom(evs, i, ind) ==
    IF i > Len(evs) THEN <<>>
    ELSE LET ins == ind.on /\ i > 1 /\ evs[i].k \in Wrapped /\ evs[i - 1].k \notin {"Text", "CData"} IN
         (IF ins THEN <<10>> \o Rep(ind.ch, DepthBefore(evs, i, ind.size)) ELSE <<>>) \o RenderW(evs[i])
         \o IndentedFrom(evs, i + 1, ind)
Indented(evs, ind) == IndentedFrom(evs, 1, ind)

\* C19 read literally: the property fixes WHERE white space may appear, not how much.  `out` conforms iff it is the plain
\* rendering with, optionally, a line break and a run of the indent character inserted immediately before a wrapped markup
\* event that is not the first event and does not follow Text or CData.  (Written = Indented is the stronger statement of
\* what the code does today; a difference in the amount of indentation only is tagged I.)
RECURSIVE SkipRun(_, _, _)
SkipRun(out, p, ch) == IF p < Len(out) /\ At(out, p) = ch THEN SkipRun(out, p + 1, ch) ELSE p
RECURSIVE ConformsFrom(_, _, _, _, _)
ConformsFrom(evs, i, out, pos, ch) ==
    IF i > Len(evs) THEN pos = Len(out)
    ELSE LET piece == RenderW(evs[i])
             allowed == i > 1 /\ evs[i].k \in Wrapped /\ evs[i - 1].k \notin {"Text", "CData"}
             p1 == IF allowed /\ pos < Len(out) /\ At(out, pos) = 10 THEN SkipRun(out, pos + 1, ch) ELSE pos IN
         /\ StartsAt(out, p1, Len(out), piece)
         /\ ConformsFrom(evs, i + 1, out, p1 + Len(piece), ch)
IndentConforms(evs, out, ind) == ConformsFrom(evs, 1, out, 0, ind.ch)

---------------------------------------------------------------------------
\* Constructors (C09).  Results are written events [k, b].
MkStart(name, attrs) ==      \* BytesStart::new(name) + push_attribute((k, v)) for each pair
    LET RECURSIVE A(_)
        A(i) == IF i > Len(attrs) THEN <<>>
                ELSE <<32>> \o attrs[i][1] \o <<61, 34>> \o Esc(attrs[i][2], "full") \o <<34>> \o A(i + 1) IN
    name \o A(1)
MkText(s) == [k |-> "Text", b |-> Esc(s, "full")]                   \* BytesText::new
\* BytesCData::escaped: split before every '>' that closes "]]>"
RECURSIVE CDataPieces(_, _, _)
CDataPieces(s, from, i) ==      \* from = start of the current piece, i = scan position (0-based)
    IF i >= Len(s) THEN <<Slice(s, from, Len(s))>>
    ELSE IF At(s, i) = GT /\ i - from >= 2 /\ At(s, i - 1) = RBR /\ At(s, i - 2) = RBR
         THEN <<Slice(s, from, i)>> \o CDataPieces(s, i, i + 1)
    ELSE CDataPieces(s, from, i + 1)
MkCData(s) == LET ps == CDataPieces(s, 0, 0) IN [i \in 1..Len(ps) |-> [k |-> "CData", b |-> ps[i]]]
MkDecl(ver, enc, sa) ==      \* BytesDecl::new(version, Option encoding, Option standalone); <<0>> = None
    [k |-> "Decl", b |-> <<120,109,108,32,118,101,114,115,105,111,110,61,34>> \o ver
                         \o (IF enc = <<0>> THEN <<>> ELSE <<34,32,101,110,99,111,100,105,110,103,61,34>> \o enc)
                         \o (IF sa = <<0>> THEN <<>> ELSE <<34,32,115,116,97,110,100,97,108,111,110,101,61,34>> \o sa)
                         \o <<34>>]

---------------------------------------------------------------------------
\* Construction descriptors (shared by MC_Writer and TraceWriter):
\*   <<"start"|"empty", name, attrs, edits>>  <<"end", name>>  <<"text", s>>  <<"cdata", s>>
\*   <<"comment", s>>  <<"pi", s>>  <<"decl", ver, enc, sa>>  <<"doctype", s>>
\*   <<"elem_text"|"elem_cdata"|"elem_pi", name, attrs, s>>  <<"elem_empty", name, attrs>>
\* BytesStart as [buf, nlen]; edits as in src/events/mod.rs
PushOne(st, k, v) == [st EXCEPT !.buf = st.buf \o <<32>> \o k \o <<61, 34>> \o Esc(v, "full") \o <<34>>]
RECURSIVE PushAll(_, _, _)
PushAll(st, attrs, i) == IF i > Len(attrs) THEN st ELSE PushAll(PushOne(st, attrs[i][1], attrs[i][2]), attrs, i + 1)
ApplyEdit(st, ed) ==
    CASE ed[1] = "set_name" -> [buf |-> ed[2] \o SubSeq(st.buf, st.nlen + 1, Len(st.buf)), nlen |-> Len(ed[2])]
      [] ed[1] = "clear" -> [st EXCEPT !.buf = SubSeq(st.buf, 1, st.nlen)]
      [] ed[1] = "push" -> PushOne(st, ed[2], ed[3])
      [] OTHER -> PushAll(st, ed[2], 1)           \* extend
RECURSIVE ApplyEdits(_, _, _)
ApplyEdits(st, eds, i) == IF i > Len(eds) THEN st ELSE ApplyEdits(ApplyEdit(st, eds[i]), eds, i + 1)
BuildStart(d) == ApplyEdits(PushAll([buf |-> d[2], nlen |-> Len(d[2])], d[3], 1), d[4], 1)

\* logical name/attributes after the edits
LogEdit(lg, ed) ==
    CASE ed[1] = "set_name" -> [lg EXCEPT !.name = ed[2]]
      [] ed[1] = "clear" -> [lg EXCEPT !.attrs = <<>>]
      [] ed[1] = "push" -> [lg EXCEPT !.attrs = Append(lg.attrs, <<ed[2], ed[3]>>)]
      [] OTHER -> [lg EXCEPT !.attrs = lg.attrs \o ed[2]]
RECURSIVE LogEdits(_, _, _)
LogEdits(lg, eds, i) == IF i > Len(eds) THEN lg ELSE LogEdits(LogEdit(lg, eds[i]), eds, i + 1)
LogStart(d) == LogEdits([name |-> d[2], attrs |-> d[3]], d[4], 1)

\* written events and expected logical events of one descriptor
EventsOf(d) ==
    CASE d[1] = "start" -> <<[k |-> "Start", b |-> BuildStart(d).buf]>>
      [] d[1] = "empty" -> <<[k |-> "Empty", b |-> BuildStart(d).buf]>>
      [] d[1] = "end" -> <<[k |-> "End", b |-> d[2]]>>
      [] d[1] = "text" -> <<MkText(d[2])>>
      [] d[1] = "cdata" -> MkCData(d[2])
      [] d[1] = "comment" -> <<[k |-> "Comment", b |-> d[2]]>>
      [] d[1] = "pi" -> <<[k |-> "PI", b |-> d[2]]>>
      [] d[1] = "decl" -> <<MkDecl(d[2], d[3], d[4])>>
      [] d[1] = "doctype" -> <<[k |-> "DocType", b |-> d[2]]>>
      [] d[1] = "elem_text" -> <<[k |-> "Start", b |-> MkStart(d[2], d[3])], MkText(d[4]), [k |-> "End", b |-> d[2]]>>
      [] d[1] = "elem_empty" -> <<[k |-> "Empty", b |-> MkStart(d[2], d[3])]>>
      [] d[1] = "elem_cdata" -> <<[k |-> "Start", b |-> MkStart(d[2], d[3])]>> \o MkCData(d[4]) \o <<[k |-> "End", b |-> d[2]]>>
      [] OTHER -> <<[k |-> "Start", b |-> MkStart(d[2], d[3])], [k |-> "PI", b |-> d[4]], [k |-> "End", b |-> d[2]]>>
DeclAttrs(d) == <<<<<<118,101,114,115,105,111,110>>, d[2]>>>>
                \o (IF d[3] = <<0>> THEN <<>> ELSE <<<<<<101,110,99,111,100,105,110,103>>, d[3]>>>>)
                \o (IF d[4] = <<0>> THEN <<>> ELSE <<<<<<115,116,97,110,100,97,108,111,110,101>>, d[4]>>>>)
LogicalOf(d) ==
    CASE d[1] = "start" -> <<<<"Start", LogStart(d).name, LogStart(d).attrs>>>>
      [] d[1] = "empty" -> <<<<"Empty", LogStart(d).name, LogStart(d).attrs>>>>
      [] d[1] = "end" -> <<<<"End", d[2], <<>>>>>>
      [] d[1] = "text" -> <<<<"Text", d[2], <<>>>>>>
      [] d[1] = "cdata" -> <<<<"CData", d[2], <<>>>>>>
      [] d[1] = "comment" -> <<<<"Comment", d[2], <<>>>>>>
      [] d[1] = "pi" -> <<<<"PI", d[2], <<>>>>>>
      [] d[1] = "decl" -> <<<<"Decl", <<>>, DeclAttrs(d)>>>>
      [] d[1] = "doctype" -> <<<<"DocType", d[2], <<>>>>>>
      [] d[1] = "elem_text" -> <<<<"Start", d[2], d[3]>>, <<"Text", d[4], <<>>>>, <<"End", d[2], <<>>>>>>
      [] d[1] = "elem_empty" -> <<<<"Empty", d[2], d[3]>>>>
      [] d[1] = "elem_cdata" -> <<<<"Start", d[2], d[3]>>, <<"CData", d[4], <<>>>>, <<"End", d[2], <<>>>>>>
      [] OTHER -> <<<<"Start", d[2], d[3]>>, <<"PI", d[4], <<>>>>, <<"End", d[2], <<>>>>>>

---------------------------------------------------------------------------
\* ElementWriter (src/writer.rs): the start tag under construction and the AttributeIndent state machine
\*   None -> Spaces(n) on the first attribute (n = name length + 2), -> WriteConfigured(size) on new_line;
\*   Spaces(n) <-> WriteSpaces(n), Configured(n) <-> WriteConfigured(n): new_line arms, the next attribute writes the indent.
\* Operations <<"attr", k, v>>, <<"attrs", list>>, <<"nl">>; cur = the writer's indentation length when the element is created.
\* Without indentation new_line does nothing and every attribute is preceded by one blank.
EWInit(name) == [buf |-> name, nlen |-> Len(name), st |-> "None", n |-> 0]
EWAttrBytes(k, v) == k \o <<61, 34>> \o Esc(v, "full") \o <<34>>
EWAttr(ew, k, v, ind, cur) ==
    IF ~ind.on THEN [ew EXCEPT !.buf = @ \o <<32>> \o EWAttrBytes(k, v)]
    ELSE CASE ew.st = "None" -> [ew EXCEPT !.buf = @ \o <<32>> \o EWAttrBytes(k, v), !.st = "Spaces", !.n = ew.nlen + 2]
           [] ew.st = "WriteSpaces" -> [ew EXCEPT !.buf = @ \o Rep(32, ew.n) \o EWAttrBytes(k, v), !.st = "Spaces"]
           [] ew.st = "WriteConfigured" -> [ew EXCEPT !.buf = @ \o Rep(ind.ch, cur + ew.n) \o EWAttrBytes(k, v), !.st = "Configured"]
           [] OTHER -> [ew EXCEPT !.buf = @ \o <<32>> \o EWAttrBytes(k, v)]
\* with_attributes: the first item goes through the state machine, the rest is appended with one blank each
EWAttrs(ew, as, ind, cur) ==
    IF as = <<>> THEN ew
    ELSE LET e1 == EWAttr(ew, as[1][1], as[1][2], ind, cur) IN
         [e1 EXCEPT !.buf = @ \o Flatten([i \in 1..(Len(as) - 1) |-> <<32>> \o EWAttrBytes(as[i + 1][1], as[i + 1][2])])]
EWNewLine(ew, ind) ==
    IF ~ind.on THEN ew
    ELSE [ew EXCEPT !.buf = @ \o <<10>>,
                    !.st = CASE ew.st = "None" -> "WriteConfigured" [] ew.st = "Spaces" -> "WriteSpaces"
                             [] ew.st = "Configured" -> "WriteConfigured" [] OTHER -> ew.st,
                    !.n = IF ew.st = "None" THEN ind.size ELSE ew.n]
EWOp(ew, op, ind, cur) ==
    CASE op[1] = "attr" -> EWAttr(ew, op[2], op[3], ind, cur)
      [] op[1] = "attrs" -> EWAttrs(ew, op[2], ind, cur)
      [] OTHER -> EWNewLine(ew, ind)
RECURSIVE EWOps(_, _, _, _, _)
EWOps(ew, ops, i, ind, cur) == IF i > Len(ops) THEN ew ELSE EWOps(EWOp(ew, ops[i], ind, cur), ops, i + 1, ind, cur)
\* the attributes an operation list stands for
EWLogical(ops) == Flatten([i \in 1..Len(ops) |-> IF ops[i][1] = "attr" THEN <<<<ops[i][2], ops[i][3]>>>> ELSE IF ops[i][1] = "attrs" THEN ops[i][2] ELSE <<>>])
\* events written by finishing the element: fin = <<"empty">> | <<"text", s>> | <<"inner", s>> | <<"cdata", s>> | <<"pi", s>>
EWFinish(tag, name, fin) ==
    CASE fin[1] = "empty" -> <<[k |-> "Empty", b |-> tag]>>
      [] fin[1] \in {"text", "inner"} -> <<[k |-> "Start", b |-> tag], MkText(fin[2]), [k |-> "End", b |-> name]>>   \* inner: the same through write_inner_content
      [] fin[1] = "cdata" -> <<[k |-> "Start", b |-> tag], [k |-> "CData", b |-> fin[2]], [k |-> "End", b |-> name]>>
      [] OTHER -> <<[k |-> "Start", b |-> tag], [k |-> "PI", b |-> fin[2]], [k |-> "End", b |-> name]>>

---------------------------------------------------------------------------
\* Reading back what was written (reader + attribute + escape specs composed).
\* Logical content of the events of a byte string under the neutral config:
\*   <<kind, name or payload, attribute list <<k, unescaped v>> >>
\* adjacent Text (unescaped) and adjacent CData are coalesced, empty Text dropped.
AttrPairs(tag, n) ==
    LET items == AttrAll(tag, n, FALSE, FALSE) IN
    [i \in 1..Len(items) |->
        IF items[i].k = "Attr"
        THEN <<Slice(tag, items[i].klo, items[i].khi),
               LET u == Unesc(Slice(tag, items[i].vlo, items[i].vhi)) IN IF u.ok THEN u.out ELSE <<0, 0, 0>>>>
        ELSE <<<<0>>, <<0>>>>]
Logical(s, e) ==
    CASE e.k \in {"Start", "Empty"} -> <<e.k, Slice(s, e.lo, e.lo + e.n), AttrPairs(Slice(s, e.lo, e.hi), e.n)>>
      [] e.k = "Text" -> LET u == Unesc(Slice(s, e.lo, e.hi)) IN <<"Text", IF u.ok THEN u.out ELSE <<0, 0, 0>>, <<>>>>
      [] e.k = "Decl" -> <<"Decl", <<>>, AttrPairs(Slice(s, e.lo, e.hi), 3)>>
      [] e.k = "Err" -> <<"Err", <<>>, <<>>>>
      [] OTHER -> <<e.k, Slice(s, e.lo, e.hi), <<>>>>
\* (empty Text is dropped FIRST: an empty text event writes nothing, so its neighbours become adjacent in the output)
RECURSIVE Merge(_)
Merge(L) ==
    IF L = <<>> THEN <<>>
    ELSE IF Len(L) >= 2 /\ Head(L)[1] \in {"Text", "CData"} /\ L[2][1] = Head(L)[1]
         THEN Merge(<<<<Head(L)[1], Head(L)[2] \o L[2][2], <<>>>>>> \o SubSeq(L, 3, Len(L)))
    ELSE <<Head(L)>> \o Merge(Tail(L))
Coalesce(L) == Merge(SelectSeq(L, LAMBDA x : ~(x[1] = "Text" /\ x[2] = <<>>)))
ReadBack(s) ==
    LET evs == RefEvents(s, NeutralCfg) IN
    Coalesce([i \in 1..(Len(evs) - 1) |-> Logical(s, evs[i])])     \* the final Eof is dropped

\* whitespace-only text between markup dropped (C19 read-back)
IsWsOnly(b) == \A i \in 1..Len(b) : IsWs(b[i])
DropWs(L) == SelectSeq(L, LAMBDA x : ~(x[1] = "Text" /\ IsWsOnly(x[2])))
=============================================================================
