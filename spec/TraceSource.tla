---------------------------- MODULE TraceSource ----------------------------
(***************************************************************************)
(* Leg (C) at the I/O boundary for C02 / C18: the real buffered and async  *)
(* readers run over the harness's chunked source, which logs EVERY         *)
(* fill_buf call (with the end offset of the piece it returned), the bytes *)
(* consumed after it, every Interrupted / Pending answer and the injected  *)
(* I/O error.  Each record is one action of Source.tla, so the machine is  *)
(* stepped through exactly the refills the code performed and must agree   *)
(* on how much was consumed after each of them and on what every call      *)
(* returned.                                                               *)
(*  SReset {in, cfg}   SCall   SFb {hi, co}   SIntr   SPend   SIo          *)
(*  SRet {k,e,b,n,x,p,q}                                                   *)
(***************************************************************************)
EXTENDS Source, TLC, Json, IOUtils

Rec == ndJsonDeserialize(IOEnv.TRACE)
VARIABLES l, dead
tvars == <<l, dead, svars>>

OfBits(b) == [aue |-> b[1] = 1, cc |-> b[2] = 1, cen |-> b[3] = 1, eee |-> b[4] = 1,
              tmn |-> b[5] = 1, tts |-> b[6] = 1, tte |-> b[7] = 1]
TInit == l = 1 /\ dead = FALSE /\ SInit(<<>>, DefaultCfg)
IsRec(t) == l <= Len(Rec) /\ Rec[l].t = t /\ l' = l + 1

TSReset == /\ IsRec("SReset")
           /\ inp' = Rec[l].in /\ cfg' = OfBits(Rec[l].cfg)
           /\ rs' = InitSt /\ rs0' = InitSt /\ pc' = "idle" /\ cons' = 0 /\ dlv' = 0 /\ moff' = 0
           /\ h' = H0 /\ ret' = NoRet /\ ncalls' = 0 /\ nstut' = 0 /\ io' = FALSE /\ dead' = FALSE
TSCall == IsRec("SCall") /\ ~dead /\ Call /\ UNCHANGED dead
\* one fill_buf: the piece ends where the code saw it end, and the machine consumes what the code consumed
TSFb == /\ IsRec("SFb") /\ ~dead
        /\ StepD(Rec[l].hi)
        /\ cons' - cons = Rec[l].co
        /\ UNCHANGED dead
TSStut == /\ (IsRec("SIntr") \/ IsRec("SPend")) /\ ~dead
          /\ pc \notin {"idle", "stop"} /\ cons = dlv           \* only a refill can be interrupted / pending
          /\ UNCHANGED <<dead, svars>>
TSIo == IsRec("SIo") /\ ~dead /\ IoFault /\ UNCHANGED dead

NameOk(logged, lo, hi) == AllAscii(inp, lo, hi) => logged = Slice(inp, lo, hi)
MatchRet(rec, r) ==
    /\ rec.k = r.ev.k
    /\ IF r.ev.k = "Err" THEN
            IF r.ev.e = "Io" THEN rec.e = "Io"
            ELSE IF r.ev.e \in SyntaxKinds
            THEN rec.e \in SyntaxKinds /\ (r.st.off = Len(inp) => rec.e = r.ev.e)
            ELSE /\ rec.e = r.ev.e /\ rec.p = BufferPosition(r.st)
                 /\ NameOk(rec.b, r.ev.lo, r.ev.hi) /\ NameOk(rec.x, r.ev.xlo, r.ev.xhi)
       ELSE /\ rec.b = Slice(inp, r.ev.lo, r.ev.hi) /\ rec.n = r.ev.n
            /\ rec.p = BufferPosition(r.st)
\* the call has returned: what the code returned is what the machine computed
TSRet == /\ IsRec("SRet") /\ ~dead
         /\ pc \in {"idle", "stop"}
         /\ MatchRet(Rec[l], ret)
         /\ dead' = io                      \* after an I/O error the run is over (later calls are tagged I)
         /\ UNCHANGED svars
TSAfter == /\ dead /\ l <= Len(Rec) /\ Rec[l].t # "SReset" /\ l' = l + 1 /\ UNCHANGED <<dead, svars>>

TNext == TSReset \/ TSCall \/ TSFb \/ TSStut \/ TSIo \/ TSRet \/ TSAfter
TSpec == TInit /\ [][TNext]_tvars
\* the invariants of Source.tla, evaluated at every step of every real run
TInv_Pos == Inv_Refines /\ Inv_Offset /\ Inv_Buf /\ Inv_Env /\ Inv_Fault
Accepted ==
    LET d == TLCGet("stats").diameter IN
    IF d - 1 = Len(Rec) THEN PrintT(<<"TRACE", ToJson([matched |-> d - 1, total |-> Len(Rec)])>>)
    ELSE PrintT(<<"TRACE", ToJson([matched |-> d - 1, total |-> Len(Rec)])>>) /\ FALSE
=============================================================================
