------------------------------ MODULE MC_Attrs ------------------------------
(***************************************************************************)
(* C11.  Two input spaces, both enumerated in Init (no transitions; the    *)
(* invariants are evaluated on every initial state):                       *)
(*  Mode "strings": every tag content of <= N bytes over                   *)
(*      {SP, TAB, '=', '"', ''', 'a', 'b', '/'} x XML/HTML x checks on/off *)
(*      - machine-level lemmas (ends, stays ended, spans well-formed,      *)
(*      progress) and REPLAY lines for the harness.                        *)
(*  Mode "lists": attribute lists CONSTRUCTED from parts (key, spacing     *)
(*      around '=', quote kind, value) with at most one injected fault at  *)
(*      any position; the expected items are known by construction (this   *)
(*      is the declarative RefAttrs) and must equal what the machine       *)
(*      yields - documented error, documented position, and every          *)
(*      well-formed attribute after the fault returned intact.             *)
(***************************************************************************)
EXTENDS Attrs, TLC, Json

CONSTANTS N, Mode, Emit, MaxAttrs

Alpha == {32, 9, 61, 34, 39, 97, 98, 47}
RECURSIVE AStrs(_)
AStrs(n) == IF n = 0 THEN {<<>>} ELSE LET S == AStrs(n - 1) IN S \cup {x \o <<b>> : x \in S, b \in Alpha}

---------------------------------------------------------------------------
\* constructed lists.  A segment is [txt, mk] where mk(base) gives the expected
\* item when txt is placed at offset base (klo etc. relative to the segment).
Keys == {<<97>>, <<98>>, <<97, 98>>}
Sp   == {<<>>, <<32>>, <<9, 32>>}
Vals == {<<>>, <<97>>, <<32, 97, 32>>, <<61>>, <<47, 62>>}
Good == { [lead |-> <<32>>, key |-> k, s1 |-> a, s2 |-> <<>>, q |-> q, val |-> v] :
          k \in Keys, a \in {<<>>, <<32>>}, q \in {34, 39}, v \in {<<>>, <<32, 97, 32>>, <<61>>} }
       \cup { [lead |-> <<32, 9>>, key |-> <<97>>, s1 |-> <<32>>, s2 |-> <<9>>, q |-> 34, val |-> <<47, 62>>] }
       \* the attribute has_nil looks for (either true literal)
       \cup { [lead |-> <<32>>, key |-> NIL_KEY, s1 |-> <<>>, s2 |-> <<>>, q |-> 39, val |-> <<49>>],
              [lead |-> <<32>>, key |-> NIL_KEY, s1 |-> <<32>>, s2 |-> <<>>, q |-> 34, val |-> <<116, 114, 117, 101>>] }
GoodTxt(g) == g.lead \o g.key \o g.s1 \o <<61>> \o g.s2 \o <<g.q>> \o g.val \o <<g.q>>
GoodItem(g, base) ==
    LET klo == base + Len(g.lead)
        khi == klo + Len(g.key)
        vlo == khi + Len(g.s1) + 1 + Len(g.s2) + 1 IN
    AItem(IF g.q = 34 THEN "DQ" ELSE "SQ", klo, khi, vlo, vlo + Len(g.val))

\* faults (XML mode, checks on); each is [txt, err(base, total, prevlo), last]
\* last = TRUE when iteration necessarily ends with this fault
FaultKinds == {"noeq", "novalue", "unquoted", "noquote", "dup"}

VARIABLES s, pos, html, chk, expect
avars == <<s, pos, html, chk, expect>>

\* lists of up to MaxAttrs good attributes with distinct keys ...
RECURSIVE Lists(_)
Lists(n) == IF n = 0 THEN {<<>>} ELSE LET S == Lists(n - 1) IN S \cup {Append(l, g) : l \in S, g \in Good}
DistinctKeys(l) == \A i, j \in 1..Len(l) : i # j => l[i].key # l[j].key

RECURSIVE Build(_, _, _)      \* text and expected items of a list placed at base
Build(l, i, base) ==
    IF i > Len(l) THEN [txt |-> <<>>, items |-> <<>>]
    ELSE LET t == GoodTxt(l[i])
             r == Build(l, i + 1, base + Len(t)) IN
         [txt |-> t \o r.txt, items |-> <<GoodItem(l[i], base)>> \o r.items]

\* one fault of kind f inserted before position i (1..Len+1) of list l
WithFault(l, i, f) ==
    LET pre  == Build(SubSeq(l, 1, i - 1), 1, 1)           \* base 1: the tag name "t"
        b    == 1 + Len(pre.txt)
        fk   == <<32, 98, 98>>                               \* " bb" : a key not in Keys
        ftxt == CASE f = "noeq"     -> fk
                  [] f = "novalue"  -> fk \o <<32, 61, 32>>
                  [] f = "unquoted" -> fk \o <<61, 97, 47>>
                  [] f = "noquote"  -> fk \o <<61, 34, 97>>
                  [] OTHER          -> <<32>> \o l[1].key \o <<32, 61, 32, 39, 97, 32, 34, 39>>   \* dup of the first key, value a_" in '
        post == Build(SubSeq(l, i, Len(l)), 1, b + Len(ftxt))
        total == 1 + Len(pre.txt) + Len(ftxt) + Len(post.txt)
        rest == SubSeq(l, i, Len(l)) IN
    CASE f = "noeq" ->
            \* error at the next non-blank byte (or the end); iteration resumes there
            [txt |-> pre.txt \o ftxt \o post.txt,
             items |-> pre.items \o <<AErr("ExpectedEq", IF rest = <<>> THEN total ELSE b + Len(ftxt) + Len(rest[1].lead), 0)>> \o post.items]
      [] f = "novalue" ->
            \* "bb = " followed by the next attribute: everything after '=' is taken as the value;
            \* only stated for the fault at the end of the list
            [txt |-> pre.txt \o ftxt, items |-> pre.items \o <<AErr("ExpectedValue", b + Len(ftxt), 0)>>]
      [] f = "unquoted" ->
            [txt |-> pre.txt \o ftxt \o post.txt,
             items |-> pre.items \o <<AErr("UnquotedValue", b + 4, 0)>> \o post.items]
      [] f = "noquote" ->
            \* the rest of the tag is swallowed by the open quote (no '"' in what follows is guaranteed by dropping post)
            [txt |-> pre.txt \o ftxt, items |-> pre.items \o <<AErr("ExpectedQuote", b + Len(ftxt), 34)>>]
      [] OTHER ->
            [txt |-> pre.txt \o ftxt \o post.txt,
             items |-> pre.items \o <<AErr("Duplicated", b + 1, 1 + Len(l[1].lead))>> \o post.items]

ListCases ==
    LET LL == {l \in Lists(MaxAttrs) : DistinctKeys(l)} IN
    {[txt |-> <<116>> \o Build(l, 1, 1).txt, items |-> Build(l, 1, 1).items] : l \in LL}
    \cup {[txt |-> <<116>> \o WithFault(c[1], c[2], c[3]).txt, items |-> WithFault(c[1], c[2], c[3]).items] :
            c \in {d \in {x \in LL : Len(x) >= 1} \X (1..(MaxAttrs + 1)) \X FaultKinds :
                      d[2] <= Len(d[1]) + 1 /\ (d[3] = "dup" => d[2] >= 2)}}

\* curated tag contents longer than N (evaluated as they are): a repeated key whose '=' ends the content, recovery at the very end
AttrSeeds == { <<32,97,61,39,49,39,32,97,61>>, <<32,97,61,34,49,34,32,98,61,49,32,97,32,61>>, <<32,97,61,98,32,97,61,39>>, <<32,98,61,39,39,32,97,61,34,34,32,98,61,34,32>> }
Init ==
    IF Mode = "strings"
    THEN /\ s \in ({<<>>} \cup AttrSeeds) /\ pos = 0 /\ html \in BOOLEAN /\ chk \in BOOLEAN /\ expect = <<>>
    ELSE /\ \E c \in {x \in ListCases : TRUE} : s = c.txt /\ expect = c.items
         /\ pos = 1 /\ html = FALSE /\ chk = TRUE
\* "strings": the strings are grown byte by byte so that TLC's workers share the
\* enumeration; every state is one tag content
Next == /\ Mode = "strings" /\ Len(s) < N
        /\ \E b \in Alpha : s' = Append(s, b)
        /\ UNCHANGED <<pos, html, chk, expect>>
Spec == Init /\ [][Next]_avars

---------------------------------------------------------------------------
Items == AttrAll(s, pos, html, chk)
EndSt == AttrEnd(s, AInit(pos), html, chk, Len(s) + 2)

\* iteration always ends and stays ended
Inv_Ends ==
    /\ Len(Items) <= Len(s) + 1
    /\ AttrStep(s, EndSt, html, chk).item.k = "None"
    /\ AttrStep(s, AttrStep(s, EndSt, html, chk).st, html, chk).item.k = "None"

\* every yielded attribute is exactly a key and the bytes between its quotes
Inv_Spans ==
    \A i \in 1..Len(Items) :
        LET it == Items[i] IN
        it.k = "Attr" =>
            /\ pos <= it.klo /\ it.klo < it.khi /\ it.khi <= it.vlo /\ it.vlo <= it.vhi /\ it.vhi <= Len(s)
            /\ \A j \in it.klo..(it.khi - 1) : ~IsWs(At(s, j)) /\ (j > it.klo => At(s, j) # EQS)
            /\ (it.klo = pos \/ IsWs(At(s, it.klo - 1)) \/ At(s, it.klo - 1) \in {DQ, SQ})
            /\ it.form = "DQ" => /\ At(s, it.vlo - 1) = DQ /\ At(s, it.vhi) = DQ
                                 /\ \A j \in it.vlo..(it.vhi - 1) : At(s, j) # DQ
            /\ it.form = "SQ" => /\ At(s, it.vlo - 1) = SQ /\ At(s, it.vhi) = SQ
                                 /\ \A j \in it.vlo..(it.vhi - 1) : At(s, j) # SQ
            /\ it.form = "Unq" => html /\ \A j \in it.vlo..(it.vhi - 1) : ~IsWs(At(s, j))
            /\ it.form = "Empty" => html
            /\ (i > 1 /\ Items[i - 1].k = "Attr") => Items[i - 1].vhi <= it.klo

\* HTML mode differs only by accepting unquoted and value-less attributes:
\* whenever XML mode yields no UnquotedValue/ExpectedEq error, both modes agree
Inv_HtmlOnlyAdds ==
    (Mode = "strings" /\ html) =>
        LET x == AttrAll(s, pos, FALSE, chk) IN
        (\A i \in 1..Len(x) : ~(x[i].k = "Err" /\ x[i].e \in {"UnquotedValue", "ExpectedEq"})) => x = Items

\* with checks off nothing is ever reported as duplicated; with checks on an
\* attribute is yielded only if its key was not seen before
Inv_Dups ==
    /\ ~chk => \A i \in 1..Len(Items) : Items[i].e # "Duplicated"
    /\ chk => \A i, j \in 1..Len(Items) :
                (i < j /\ Items[i].k = "Attr" /\ Items[j].k = "Attr")
                    => Slice(s, Items[i].klo, Items[i].khi) # Slice(s, Items[j].klo, Items[j].khi)

\* constructed lists: exactly the constructed items
Inv_Lists == Mode = "lists" => Items = expect

\* the consumers agree with the items: has_nil on constructed lists is decided by construction
GetNames == << <<97>>, <<97, 98>>, NIL_KEY, <<98, 98>> >>
Inv_HasNil == Mode = "lists" =>
    (HasNil(s, Items) <=> \E i \in 1..Len(expect) : expect[i].k = "Attr" /\ Slice(s, expect[i].klo, expect[i].khi) = NIL_KEY)
\* toggling the check never loses an item: with the check off everywhere the same attributes come out, in the same places
Inv_Toggle == LET T == AttrAllPat(s, pos, html, <<TRUE, FALSE, TRUE>>)
                  U == AttrAll(s, pos, html, FALSE) IN
              \A i \in 1..Len(T) : T[i].k = "Attr" => (i <= Len(U) /\ U[i] = T[i])
ItemRow(it) == <<it.k, it.form, it.klo, it.khi, it.vlo, it.vhi, it.e, it.p1, it.p2>>
Inv_Emit ==
    Emit => PrintT(<<"REPLAY", ToJson([s |-> s, pos |-> pos, html |-> IF html THEN 1 ELSE 0, chk |-> IF chk THEN 1 ELSE 0,
                                       items |-> [i \in 1..Len(Items) |-> ItemRow(Items[i])],
                                       nil |-> IF HasNil(s, Items) THEN 1 ELSE 0,
                                       tog |-> LET T == AttrAllPat(s, pos, html, <<TRUE, FALSE, TRUE>>) IN [i \in 1..Len(T) |-> ItemRow(T[i])],
                                       tga |-> [i \in 1..Len(GetNames) |-> TryGet(s, pos, GetNames[i])]])>>)
=============================================================================
