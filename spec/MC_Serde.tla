------------------------------ MODULE MC_Serde ------------------------------
(***************************************************************************)
(* C06 / C13 (and the stimuli of C14, C19-serde): every value of the type  *)
(* family produced by the finite generators.  One state per (type, value). *)
(***************************************************************************)
EXTENDS SerdeTypes, TLC, Json

CONSTANTS Types, Mode, Emit     \* Mode: "rt" | "all"
VARIABLES ty, v, root
svars == <<ty, v, root>>
Pool == IF Mode = "rt" THEN StrRT ELSE StrHostile
Init == ty \in Types /\ v = [z |-> 1] /\ root = RootBytes(ty)
Next == /\ v = [z |-> 1]
        /\ \E x \in ValuesOf(ty, Pool, Mode) : v' = x
        /\ root' \in {RootBytes(ty)} \cup (IF ty = "F01" /\ Mode = "all" THEN HostileRoots ELSE {})
        /\ UNCHANGED ty
Spec == Init /\ [][Next]_svars

HasV == v # [z |-> 1]
Tree == SerTree(v, TypeOf(ty), root)

\* serialization succeeds on the documented round-trippable domain
Inv_SerOk == (HasV /\ Mode = "rt" /\ ty \in RTTypes) => ~IsFail(Tree)
\* whatever is emitted is properly nested and every name is a legal XML name
Inv_WellFormed ==
    (HasV /\ ~IsFail(Tree)) =>
        /\ Nested(Tree, <<>>)
        /\ \A i \in 1..Len(Tree) : Tree[i][1] \in {"Start", "End"} => IsXmlName(Tree[i][2])
        /\ \A i \in 1..Len(Tree) : \A j \in 1..Len(Tree[i][3]) : IsXmlName(Tree[i][3][j][1])
\* the mapping loses no information on the domain: distinct values have distinct documents
Inv_Injective ==
    (~HasV /\ Mode = "rt" /\ ty \in RTTypes) =>
        LET V == ValuesOf(ty, Pool, Mode) IN Cardinality({SerTree(x, TypeOf(ty), RootBytes(ty)) : x \in V}) = Cardinality(V)

Inv_Emit ==
    (Emit /\ HasV) =>
        PrintT(<<"REPLAY", ToJson([ty |-> ty, v |-> v, root |-> root, fail |-> IF IsFail(Tree) THEN 1 ELSE 0,
                                   tree |-> IF IsFail(Tree) THEN <<>> ELSE Tree, rt |-> IF Mode = "rt" THEN 1 ELSE 0])>>)
=============================================================================
