-------------------------------- MODULE MC_De --------------------------------
(***************************************************************************)
(* Deserializer-side instances (C07, C15, C20).                            *)
(*  Mode "soup"       token soups of <= N tokens (tags, text, blanks,      *)
(*                    CDATA, comment, PI, DOCTYPE, entity references,      *)
(*                    attributes, xsi:nil): lemma NoTwoTexts on the        *)
(*                    DeEvent stream; documents emitted for the harness.   *)
(*  Mode "rewrite"    serialized family values under every single lexical  *)
(*                    rewrite (and pairs): DeEvent stream unchanged;       *)
(*                    documents + expected value emitted.                  *)
(*  Mode "rewriteS"   the same over GENERATED types: every schema of       *)
(*                    SchemaGen with <= N fields in the round-trippable    *)
(*                    domain x its four canonical values.                  *)
(*  Mode "interleave" overlapped lists: every order-preserving             *)
(*                    interleaving of the children with the number of      *)
(*                    events that must be held (Held).                     *)
(***************************************************************************)
EXTENDS SchemaGen, DeSM, TLC, Json

CONSTANTS Mode, N, Emit, SkipDoctype, Types

\* ---------------------------------------------------------------- soup
Toks == { <<60,97,62>>, <<60,47,97,62>>, <<60,98,62>>, <<60,47,98,62>>, <<60,97,47,62>>,       \* <a> </a> <b> </b> <a/>
          <<116>>, <<32>>, <<60,33,91,67,68,65,84,65,91,99,93,93,62>>,                          \* t SP <![CDATA[c]]>
          <<60,33,45,45,120,45,45,62>>, <<60,63,112,63,62>>,                                    \* <!--x--> <?p?>
          <<60,33,68,79,67,84,89,80,69,32,100,62>>,                                             \* <!DOCTYPE d>
          <<38,108,116,59>>, <<38,120,59>>,                                                     \* &lt; &x;
          <<60,97,32,107,61,34,49,34,62>>,                                                      \* <a k="1">
          <<60,98,32,120,115,105,58,110,105,108,61,34,116,114,117,101,34,47,62>>,               \* <b xsi:nil="true"/>
          <<195,160>>,                                                                          \* a-grave: UTF-8 C3 A0 (continuation byte = NBSP in Latin-1)
          <<60,97,32,108,61,34,195,133,32,49,34,62>>,                                           \* <a l="A-ring 1">  (C3 85)
          <<60,33,91,67,68,65,84,65,91,93,93,62>> }                                             \* <![CDATA[]]>  (the only source of an EMPTY text event)

\* tokens that matter inside one text run of an element (Mode "textrun": <a> + tokens [+ </a>])
TextToks == { <<116>>, <<32>>, <<60,33,91,67,68,65,84,65,91,99,93,93,62>>, <<60,33,45,45,120,45,45,62>>,
              <<60,33,68,79,67,84,89,80,69,32,100,62>>, <<38,108,116,59>>, <<60,47,97,62>>,
              <<195,160>>, <<194,160>>, <<208,160,32,195,133>>,        \* a-grave, NBSP, "Cyrillic-Er A-ring" (continuation bytes A0 / 85)
              <<38,59>>,                                               \* &;  (a reference with an EMPTY name reaches the entity resolver)
              <<60,33,91,67,68,65,84,65,91,93,93,62>> }                \* <![CDATA[]]>

\* Mode "textrunR": the same under a CUSTOM entity resolver ( &a; -> "A;&" ): references in the first and in later pieces of a run
TextToksR == { <<116>>, <<32>>, <<60,33,91,67,68,65,84,65,91,99,93,93,62>>, <<60,33,45,45,120,45,45,62>>, <<60,63,112,63,62>>,
               <<60,33,68,79,67,84,89,80,69,32,100,62>>, <<38,108,116,59>>, <<38,97,59>>, <<60,47,97,62>> }     \* ... <?p?> <!DOCTYPE d> &lt; &a; </a>

\* Mode "nil": inside an element that carries a properly bound xsi:nil="true" (the deserializer treats its content as
\* absent): what may nevertheless be there - text, CDATA, children (also nil ones), the end tag, more content after it
NilOpen == <<60,97,32,120,109,108,110,115,58,120,115,105,61,34,104,116,116,112,58,47,47,119,119,119,46,119,51,46,111,114,103,47,50,48,48,49,47,
             88,77,76,83,99,104,101,109,97,45,105,110,115,116,97,110,99,101,34,32,120,115,105,58,110,105,108,61,34,116,114,117,101,34,62>>
            \* <a xmlns:xsi="http://www.w3.org/2001/XMLSchema-instance" xsi:nil="true">
NilToks == { <<116>>, <<32>>, <<60,33,91,67,68,65,84,65,91,99,93,93,62>>, <<60,98,62>>, <<60,47,98,62>>, <<60,98,47,62>>, <<60,47,97,62>>,
             <<60,98,32,120,115,105,58,110,105,108,61,34,116,114,117,101,34,62>>,        \* <b xsi:nil="true">
             <<60,97,62>>, <<60,33,45,45,120,45,45,62>> }

\* ---------------------------------------------------------------- rendering logical events
EscText(s) == Esc(s, "partial")
RenderAttrs(attrs, q, sp, rev) ==
    LET n == Len(attrs)
        RECURSIVE R(_)
        R(i) == IF i > n THEN <<>>
                ELSE LET a == IF rev THEN attrs[n + 1 - i] ELSE attrs[i] IN
                     (IF sp THEN <<32, 10>> ELSE <<32>>) \o a[1] \o (IF sp THEN <<9, 13, 10, 61, 10, 9, 32>> ELSE <<61>>) \o <<q>>      \* every kind of white space around '='
                     \o Esc(a[2], "full") \o <<q>> \o R(i + 1) IN
    R(1)
\* unknown children whose own children repeat their name (the skip must count nesting), with text and other names inside
UnkDeepFirst == <<60,122,122,62, 60,122,122,62,117,60,47,122,122,62, 60,121,47,62, 116, 60,47,122,122,62>>          \* <zz><zz>u</zz><y/>t</zz>
UnkDeepLast == <<60,122,122,32,113,61,34,49,34,62, 60,122,122,47,62, 60,122,122,62,60,122,122,47,62,60,47,122,122,62, 60,47,122,122,62>>   \* <zz q="1"><zz/><zz><zz/></zz></zz>
\* style: how the same information is spelled
BaseStyle == [cdata |-> FALSE, refs |-> FALSE, short |-> FALSE, q |-> 34, sp |-> FALSE, rev |-> FALSE,
              prolog |-> FALSE, trail |-> FALSE, noteAt |-> 0, noteKind |-> 0, splitAt |-> 0, split3At |-> 0, wsAt |-> 0,
              unkAttr |-> FALSE, unkFirst |-> FALSE, unkLast |-> FALSE, unkDeep |-> FALSE]
Mod(a, b) == a % b
DecDigits(b) == (IF b >= 100 THEN <<48 + b \div 100>> ELSE <<>>) \o (IF b >= 10 THEN <<48 + Mod(b \div 10, 10)>> ELSE <<>>) \o <<48 + Mod(b, 10)>>
HexDigit(d) == IF d < 10 THEN 48 + d ELSE 87 + d
\* every ASCII byte as a decimal / hexadecimal character reference (alternating), other bytes literally
RECURSIVE CharRefsFrom(_, _)
CharRefsFrom(s, i) ==
    IF i > Len(s) THEN <<>>
    ELSE (IF s[i] < 128
          THEN (IF Mod(i, 2) = 0 THEN <<38, 35>> \o DecDigits(s[i]) \o <<59>>
                ELSE <<38, 35, 120, HexDigit(s[i] \div 16), HexDigit(Mod(s[i], 16)), 59>>)
          ELSE <<s[i]>>) \o CharRefsFrom(s, i + 1)
CharRefs(s) == CharRefsFrom(s, 1)
HasCDEnd(s) == \E i \in 1..(Len(s) - 2) : s[i] = 93 /\ s[i + 1] = 93 /\ s[i + 2] = 62
NOTE1 == <<60,33,45,45,32,110,32,45,45,62>>      \* <!-- n -->
NOTE2 == <<60,63,110,32,118,63,62>>              \* <?n v?>
\* cut positions fall on character boundaries: the largest boundary <= k (0 = none inside the string)
IsCont(b) == b >= 128 /\ b <= 191
RECURSIVE CutAt(_, _)
CutAt(s, k) == IF k <= 0 THEN 0 ELSE IF k < Len(s) /\ IsCont(s[k + 1]) THEN CutAt(s, k - 1) ELSE k
RenderText(s, st, j) ==
    LET body(x) == IF st.cdata /\ ~HasCDEnd(x) /\ x # <<>> THEN <<60,33,91,67,68,65,84,65,91>> \o x \o <<93,93,62>>
                   ELSE IF st.refs THEN CharRefs(x) ELSE EscText(x) IN
    IF st.split3At = j /\ Len(s) >= 3 /\ CutAt(s, Len(s) \div 3) >= 1 /\ CutAt(s, Len(s) - Len(s) \div 3) > CutAt(s, Len(s) \div 3)
       /\ CutAt(s, Len(s) - Len(s) \div 3) < Len(s)      \* two insertions: the run is cut into three pieces
    THEN LET a == CutAt(s, Len(s) \div 3)
             b == CutAt(s, Len(s) - Len(s) \div 3) IN
         body(SubSeq(s, 1, a)) \o NOTE1 \o body(SubSeq(s, a + 1, b)) \o (IF st.noteKind = 0 THEN NOTE2 ELSE NOTE1) \o body(SubSeq(s, b + 1, Len(s)))
    ELSE IF st.splitAt = j /\ Len(s) >= 2 /\ CutAt(s, Len(s) \div 2) >= 1       \* a comment / PI inside the text run
    THEN LET c == CutAt(s, Len(s) \div 2) IN
         body(SubSeq(s, 1, c)) \o (IF st.noteKind = 0 THEN NOTE1 ELSE NOTE2) \o body(SubSeq(s, c + 1, Len(s)))
    ELSE body(s)

RECURSIVE RenderFrom(_, _, _, _)
RenderFrom(L, j, st, depth) ==
    IF j > Len(L) THEN <<>>
    ELSE LET e == L[j]
             note == IF st.noteAt = j THEN (IF st.noteKind = 0 THEN NOTE1 ELSE NOTE2) ELSE <<>>
             ws == IF st.wsAt = j THEN <<10, 32, 32>> ELSE <<>>
             isRootStart == (j = 1)
             isRootEnd == (j = Len(L)) IN
    note \o ws \o
    (CASE e[1] = "Start" ->
            LET attrs == IF isRootStart /\ st.unkAttr THEN Append(e[3], <<<<122, 122>>, <<49>>>>) ELSE e[3]
                empty == j < Len(L) /\ L[j + 1][1] = "End" /\ st.short /\ ~(isRootStart /\ st.unkFirst) IN
            IF empty THEN <<60>> \o e[2] \o RenderAttrs(attrs, st.q, st.sp, st.rev) \o <<47, 62>> \o RenderFrom(L, j + 2, st, depth)
            ELSE <<60>> \o e[2] \o RenderAttrs(attrs, st.q, st.sp, st.rev) \o <<62>>
                 \o (IF isRootStart /\ st.unkFirst
                     THEN (IF st.unkDeep THEN UnkDeepFirst ELSE <<60, 122, 122, 62, 117, 60, 47, 122, 122, 62>>) ELSE <<>>)   \* <zz>u</zz>
                 \o RenderFrom(L, j + 1, st, depth + 1)
       [] e[1] = "End" ->
            (IF isRootEnd /\ st.unkLast
             THEN (IF st.unkDeep THEN UnkDeepLast ELSE <<60, 122, 122, 32, 113, 61, 34, 49, 34, 47, 62>>) ELSE <<>>)            \* <zz q="1"/>
            \o <<60, 47>> \o e[2] \o (IF st.sp THEN <<32>> ELSE <<>>) \o <<62>> \o RenderFrom(L, j + 1, st, depth - 1)
       [] OTHER -> RenderText(e[2], st, j) \o RenderFrom(L, j + 1, st, depth))
RenderDoc(L, st) ==
    (IF st.prolog THEN <<60,63,120,109,108,32,118,101,114,115,105,111,110,61,34,49,46,48,34,63,62,10>> \o NOTE1 \o <<10>> ELSE <<>>)
    \o RenderFrom(L, 1, st, 0)
    \o (IF st.trail THEN <<10>> \o NOTE1 \o NOTE2 ELSE <<>>)

\* positions between two sibling elements of element-only content (whitespace may be added there)
ElementOnly(L) == \A i \in 1..Len(L) : L[i][1] # "Text"
WsSites(L) == IF ElementOnly(L) THEN {j \in 2..Len(L) : TRUE} ELSE {}
\* (a comment is inserted between two characters, never inside a multi-byte character)
TextSites(L) == {j \in 1..Len(L) : L[j][1] = "Text" /\ Len(L[j][2]) >= 2 /\ CutAt(L[j][2], Len(L[j][2]) \div 2) >= 1}
\* unknown children may be added only to element-only content of a struct that ignores unknown fields
UnkChildOk(tyn) == tyn \in {"F02", "F03", "F05", "F11", "F18", "F19", "F20", "F22", "F23", "F29", "F32", "F35"}

\* every single rewrite of the listed kinds
Rewrites(L, unkOk) ==
    {[BaseStyle EXCEPT !.cdata = TRUE], [BaseStyle EXCEPT !.refs = TRUE], [BaseStyle EXCEPT !.short = TRUE],
     [BaseStyle EXCEPT !.q = 39], [BaseStyle EXCEPT !.sp = TRUE], [BaseStyle EXCEPT !.rev = TRUE],
     [BaseStyle EXCEPT !.prolog = TRUE], [BaseStyle EXCEPT !.trail = TRUE], [BaseStyle EXCEPT !.unkAttr = TRUE]}
    \cup {[BaseStyle EXCEPT !.noteAt = j, !.noteKind = k] : j \in 1..Len(L), k \in {0, 1}}
    \cup {[BaseStyle EXCEPT !.splitAt = j, !.noteKind = k] : j \in TextSites(L), k \in {0, 1}}
    \cup {[BaseStyle EXCEPT !.split3At = j, !.noteKind = k] : j \in {x \in TextSites(L) : Len(L[x][2]) >= 3}, k \in {0, 1}}
    \cup {[BaseStyle EXCEPT !.wsAt = j] : j \in WsSites(L)}
    \cup (IF unkOk /\ ElementOnly(L) /\ Len(L) > 2
          THEN {[BaseStyle EXCEPT !.unkFirst = TRUE], [BaseStyle EXCEPT !.unkLast = TRUE],
                [BaseStyle EXCEPT !.unkFirst = TRUE, !.unkDeep = TRUE], [BaseStyle EXCEPT !.unkLast = TRUE, !.unkDeep = TRUE],
                [BaseStyle EXCEPT !.unkFirst = TRUE, !.unkLast = TRUE, !.unkDeep = TRUE, !.short = TRUE]} ELSE {})
\* a few compositions
Combos(L, unkOk) ==
    {[BaseStyle EXCEPT !.cdata = TRUE, !.short = TRUE, !.q = 39, !.rev = TRUE, !.prolog = TRUE, !.trail = TRUE],
     [BaseStyle EXCEPT !.refs = TRUE, !.sp = TRUE, !.short = TRUE, !.unkAttr = TRUE, !.noteAt = 2],
     [BaseStyle EXCEPT !.refs = TRUE, !.q = 39, !.noteAt = Len(L), !.noteKind = 1, !.prolog = TRUE]}
    \cup {[BaseStyle EXCEPT !.splitAt = j, !.cdata = TRUE, !.rev = TRUE] : j \in TextSites(L)}
    \cup {[BaseStyle EXCEPT !.wsAt = j, !.short = TRUE, !.noteAt = j, !.unkLast = unkOk /\ Len(L) > 2] : j \in WsSites(L)}

\* DeEvent view modulo attribute spelling: attributes as a set of (key, unescaped value)
AttrSetOf(tag, n) == LET ps == AttrPairs(tag, n) IN {ps[i] : i \in 1..Len(ps)}
DeView2(doc, D) == [i \in 1..Len(D) |->
    CASE D[i][1] = "Start" -> <<"Start", Slice(doc, D[i][2], D[i][2] + D[i][4]), AttrSetOf(Slice(doc, D[i][2], D[i][3]), D[i][4])>>
      [] D[i][1] = "End" -> <<"End", Slice(doc, D[i][2], D[i][3])>>
      [] D[i][1] = "Text" -> <<"Text", D[i][2]>>
      [] OTHER -> <<D[i][1]>>]
InvisibleToEvents(st) == ~st.unkAttr /\ ~st.unkFirst /\ ~st.unkLast

\* ---------------------------------------------------------------- interleavings
\* children of the root element of a logical document, as [name, lo, hi] index ranges into L
\* list fields of the element named nm at nesting depth d (0 = root) of family type tyn
ListFields(tyn) == IF tyn = "F22" THEN {n_a, n_b} ELSE IF tyn = "F23" THEN {n_a, n_b, n_d} ELSE IF tyn = "F26" THEN {n_a, n_b} ELSE IF tyn = "F29" THEN {n_a, n_b, n_d} ELSE IF tyn = "F35" THEN {n_a, n_b, n_d} ELSE IF tyn = "F33" THEN {n_a, n_b} ELSE IF tyn = "F34" THEN {<<112>>, <<120>>, <<113>>} ELSE {}
\* A fixed-size sequence (array, tuple) stops after its last item instead of scanning to the parent's end tag, so what has to be
\* buffered follows another rule; for such types the buffer model is not claimed (HeldOf = 0: only "the value or TooManyEvents,
\* monotone in the limit" is checked)
HasFixedList(tyn) == tyn = "F34"
\* nesting depth of the struct whose children are interleaved (0 = the root element)
StructDepth(tyn) == IF tyn = "F33" THEN 1 ELSE 0
InnerLists(tyn, nm) == IF tyn = "F26" /\ nm = n_a THEN {n_a, n_b} ELSE IF tyn = "F23" /\ nm = n_b THEN {n_a} ELSE IF tyn = "F29" /\ nm = n_b THEN {n_b} ELSE {}
RECURSIVE ChildrenIn(_, _, _, _)
ChildrenIn(L, j, stop, tyn) ==      \* children whose Start is at index j.. below index stop (the parent's End)
    IF j >= stop THEN <<>>
    ELSE IF L[j][1] = "Text" THEN ChildrenIn(L, j + 1, stop, tyn)
    ELSE LET RECURSIVE EndOf(_, _)
             EndOf(i, d) == IF L[i][1] = "Start" THEN EndOf(i + 1, d + 1)
                            ELSE IF L[i][1] = "End" THEN (IF d = 1 THEN i ELSE EndOf(i + 1, d - 1))
                            ELSE EndOf(i + 1, d)
             e == EndOf(j, 0)
             inl == InnerLists(tyn, L[j][2]) IN
         <<[name |-> L[j][2], lo |-> j, hi |-> e, size |-> e - j + 1,
            inner |-> IF inl = {} THEN 0 ELSE Held(ChildrenIn(L, j + 1, e, "-"), inl)]>> \o ChildrenIn(L, e + 1, stop, tyn)
ChildrenOf(L, tyn) == ChildrenIn(L, 2 + StructDepth(tyn), Len(L) - StructDepth(tyn), tyn)
\* all interleavings that keep the relative order within each name
RECURSIVE Inter(_)
Inter(cs) ==
    IF cs = <<>> THEN {<<>>}
    ELSE LET names == {cs[i].name : i \in 1..Len(cs)}
             firstOf(nm) == CHOOSE i \in 1..Len(cs) : cs[i].name = nm /\ \A j \in 1..(i - 1) : cs[j].name # nm
             without(i) == SubSeq(cs, 1, i - 1) \o SubSeq(cs, i + 1, Len(cs)) IN
         UNION {{<<cs[firstOf(nm)]>> \o r : r \in Inter(without(firstOf(nm)))} : nm \in names}
Reassemble(L, order, tyn) == SubSeq(L, 1, 1 + StructDepth(tyn)) \o Flatten([i \in 1..Len(order) |-> SubSeq(L, order[i].lo, order[i].hi)]) \o SubSeq(L, Len(L) - StructDepth(tyn), Len(L))
---------------------------------------------------------------------------
VARIABLES ty, v, doc, toks, phase
dvars == <<ty, v, doc, toks, phase>>
NoV == [z |-> 1]
IsSoup == Mode \in {"soup", "textrun", "textrunR", "nil"}
Init == /\ phase = 0 /\ doc = (IF Mode \in {"textrun", "textrunR"} THEN <<60, 97, 62>> ELSE IF Mode = "nil" THEN NilOpen ELSE <<>>) /\ toks = 0 /\ v = NoV
        /\ ty \in (IF IsSoup THEN {"-"} ELSE IF Mode = "rewriteS"
                    THEN \* (list items with white space are written as character references by the real serializer only: this
                         \* module renders documents itself, from the logical tree, where items are joined by blanks)
                         {sc \in SchemaSet(N) : InRT(sc) /\ \A i \in 1..Len(sc.attrs) : sc.attrs[i] # SList(STRW)}
                    ELSE Types)
SoupNext == /\ IsSoup /\ toks < N
            /\ \E t \in (IF Mode = "textrun" THEN TextToks ELSE IF Mode = "textrunR" THEN TextToksR ELSE IF Mode = "nil" THEN NilToks ELSE Toks) : doc' = doc \o t
            /\ toks' = toks + 1 /\ UNCHANGED <<ty, v, phase>>
ValNext == /\ ~IsSoup /\ phase = 0
           /\ \E x \in (IF Mode = "rewriteS" THEN {ValueOfSch(ty, i) : i \in 1..4} ELSE ValuesOf(ty, StrRT, "rt")) : v' = x
           /\ phase' = 1 /\ UNCHANGED <<ty, doc, toks>>
Next == SoupNext \/ ValNext
Spec == Init /\ [][Next]_dvars

IsRw == Mode \in {"rewrite", "rewriteS"}
TheType == IF Mode = "rewriteS" THEN TypeOfSch(ty) ELSE TypeOf(ty)
Tree == SerTree(v, TheType, IF Mode = "rewriteS" THEN <<82>> ELSE RootBytes(ty))
\* generated structs ignore unknown fields (as derived ones do by default) - unless they have a $value field, which takes
\* every element that is not a named field
UnkOk == IF Mode = "rewriteS" THEN ty.content = <<>> ELSE UnkChildOk(ty)
Base == RenderDoc(Tree, BaseStyle)

\* C07: the lemma behind the unreachable!() sites, on every token soup
Inv_NoTwoTexts == IsSoup => NoTwoTexts(DeEvents(doc, SkipDoctype))
\* the stream always ends (Eof or an error) and is bounded by the input
Inv_DeBounded == IsSoup =>
    LET D == DeEvents(doc, SkipDoctype) IN D # <<>> /\ D[Len(D)][1] \in {"Eof", "Err"} /\ Len(D) <= Len(doc) + 2

\* C07 "in bounded time": a top-level sequence of options ends, with at most one item per event
Inv_RootSeqEnds ==
    IsSoup => LET D == DeEvents(doc, SkipDoctype)
                  n == RootOptItems(D, 1, Len(D) + 2, {}) IN n >= 0 /\ n <= Len(D)
\* ... and the repaired defect is a real divergence of the design without the consumption (vacuity check of the invariant above)
Inv_RootSeqWitness ==
    (IsSoup /\ doc = <<60,33,91,67,68,65,84,65,91,93,93,62>>) => RootOptItems(DeEvents(doc, SkipDoctype), 1, 8, {"C07-1"}) = -1
\* C15 under a custom resolver: the text of a run is the unescaped concatenation of its pieces - taking the comments, PIs and
\* DOCTYPEs out of the document does not change what a String target gets (when both documents are one element with text)
IsNoise(t) == t \in { <<60,33,45,45,120,45,45,62>>, <<60,63,112,63,62>>, <<60,33,68,79,67,84,89,80,69,32,100,62>> }
Inv_ResolverRun ==
    Mode = "textrunR" =>
        \A t \in {x \in TextToksR : IsNoise(x)} :
            LET a == StringOf(DeEventsE(doc, TRUE, "custom"))
                b == StringOf(DeEventsE(doc \o t \o <<38,97,59,60,47,97,62>>, TRUE, "custom"))
                c == StringOf(DeEventsE(doc \o <<38,97,59,60,47,97,62>>, TRUE, "custom")) IN
            (b.known /\ c.known) => b.text = c.text
\* C15: the DeEvent stream does not depend on the lexical presentation
Inv_Rewrite ==
    (IsRw /\ phase = 1) =>
        LET ref == DeView2(Base, DeEvents(Base, TRUE)) IN
        \A st \in Rewrites(Tree, UnkOk) \cup Combos(Tree, UnkOk) :
            InvisibleToEvents(st) => LET d == RenderDoc(Tree, st) IN DeView2(d, DeEvents(d, TRUE)) = ref
\* and the base document reads back as the value's logical tree
Inv_BaseReadsBack == (IsRw /\ phase = 1) => NormEmpty(ReadBack(Base)) = Tree

\* An absent optional field may also be PRESENT in the document as an element marked xsi:nil="true" (whatever it contains):
\* for F32 values without `o` the interleaved children include <o xsi:nil="true"><x/>t</o>, the prefix bound on the root.
XSI == <<104,116,116,112,58,47,47,119,119,119,46,119,51,46,111,114,103,47,50,48,48,49,47,88,77,76,83,99,104,101,109,97,45,105,110,115,116,97,110,99,101>>
NilChild == << <<"Start", <<111>>, << << <<120,115,105,58,110,105,108>>, <<116,114,117,101>> >> >> >>, <<"Start", <<120>>, <<>>>>, <<"End", <<120>>, <<>>>>,
               <<"Text", <<116>>, <<>>>>, <<"End", <<111>>, <<>>>> >>
\* (the prefix is bound on an ANCESTOR of the struct element - F33 wraps the struct in <w> - because the deserializer resolves
\* the prefix of a replayed start tag in the scope of the reader's current position; see DESIGN 7.4)
WithNil(T) == << <<"Start", T[1][2], Append(T[1][3], << <<120,109,108,110,115,58,120,115,105>>, XSI >>)>> >> \o SubSeq(T, 2, Len(T) - 2) \o NilChild \o SubSeq(T, Len(T) - 1, Len(T))
\* An UNKNOWN child (ignored by the struct: IgnoredAny drops its subtree) takes part in the interleavings like any other child
\* with a name of its own: once a list has been started it is buffered, later replayed and dropped FROM THE BUFFER.  Its
\* descendants repeat its name two levels deep, so dropping it has to count nesting.   <zz><zz><zz></zz></zz>u</zz>
ZZ == <<122, 122>>
UnkChild == << <<"Start", ZZ, <<>>>>, <<"Start", ZZ, <<>>>>, <<"Start", ZZ, <<>>>>, <<"End", ZZ, <<>>>>, <<"End", ZZ, <<>>>>, <<"Text", <<117>>, <<>>>>, <<"End", ZZ, <<>>>> >>
WithUnk(T) == SubSeq(T, 1, Len(T) - 1) \o UnkChild \o SubSeq(T, Len(T), Len(T))
TreeI == IF Mode = "interleave" /\ phase = 1 /\ ty = "F33" /\ "z" \in DOMAIN v.o[1][2].o[3][2] THEN WithNil(Tree)
         ELSE IF Mode = "interleave" /\ phase = 1 /\ ty \in {"F22", "F23", "F29", "F35"} /\ Len(Tree) > 2 THEN WithUnk(Tree)
         ELSE Tree

\* C20: interleavings keep the multiset of children and the order within each name
Inv_Inter ==
    (Mode = "interleave" /\ phase = 1) =>
        \A o \in Inter(ChildrenOf(TreeI, ty)) :
            /\ Len(o) = Len(ChildrenOf(TreeI, ty))
            /\ \A nm \in {c.name : c \in {ChildrenOf(TreeI, ty)[i] : i \in 1..Len(ChildrenOf(TreeI, ty))}} :
                  SelectSeq(o, LAMBDA c : c.name = nm) = SelectSeq(ChildrenOf(TreeI, ty), LAMBDA c : c.name = nm)
            /\ Held(o, ListFields(ty)) <= SumSizes(o)

Inv_Emit ==
    Emit =>
        CASE Mode = "textrunR" ->
                LET sc == StringOf(DeEventsE(doc, TRUE, "custom")) IN
                PrintT(<<"REPLAY", ToJson([doc |-> doc, dts |-> DocTypes(doc), strc |-> IF sc.known THEN <<sc.text>> ELSE <<>>])>>)
          [] IsSoup -> PrintT(<<"REPLAY", ToJson([doc |-> doc, dts |-> DocTypes(doc)])>>)
          [] Mode = "rewriteS" /\ phase = 1 ->
                PrintT(<<"REPLAY", ToJson([ty |-> "dyn", schema |-> TheType, v |-> v, base |-> Base,
                                           docs |-> {RenderDoc(Tree, st) : st \in {x \in Rewrites(Tree, UnkOk) \cup Combos(Tree, UnkOk) : InvisibleToEvents(x)}},
                                           udocs |-> {RenderDoc(Tree, st) : st \in {x \in Rewrites(Tree, UnkOk) \cup Combos(Tree, UnkOk) : ~InvisibleToEvents(x)}}])>>)
          [] Mode = "rewrite" /\ phase = 1 ->
                PrintT(<<"REPLAY", ToJson([ty |-> ty, v |-> v, base |-> Base,
                                           docs |-> {RenderDoc(Tree, st) : st \in {x \in Rewrites(Tree, UnkOk) \cup Combos(Tree, UnkOk) : InvisibleToEvents(x)}},
                                           udocs |-> {RenderDoc(Tree, st) : st \in {x \in Rewrites(Tree, UnkOk) \cup Combos(Tree, UnkOk) : ~InvisibleToEvents(x)}}])>>)
          [] Mode = "interleave" /\ phase = 1 ->
                PrintT(<<"REPLAY", ToJson([ty |-> ty, v |-> v,
                                           cases |-> {<<RenderDoc(Reassemble(TreeI, o, ty), BaseStyle), IF HasFixedList(ty) THEN 0 ELSE Held(o, ListFields(ty)), SumSizes(o)>> : o \in Inter(ChildrenOf(TreeI, ty))}])>>)
          [] OTHER -> TRUE
=============================================================================
