------------------------------ MODULE NsScope ------------------------------
(***************************************************************************)
(* Namespace resolution: NamespaceResolver (src/name.rs) and NsReader      *)
(* (src/reader/ns_reader.rs, async_tokio.rs) on top of the reader machine  *)
(* XmlRead and the attribute machine Attrs.                                *)
(*   ns = [b, nest, pend]   b = bindings <<[pfx, uri, level]>> in          *)
(*        declaration order (pfx = <<>> for the default namespace), the    *)
(*        two reserved bindings first; nest = nesting level; pend = a pop  *)
(*        is owed for the Empty/End event just returned.                   *)
(* Declarative side: InScope(tags, ...) - nearest declaration on the       *)
(* element itself or its ancestors, from the TRUE nesting of the document. *)
(* Design decision stated by C05: a scope ends with its element no matter  *)
(* whether the content was read event by event or skipped by read_to_end / *)
(* read_text (NsSkip pops).                                                *)
(***************************************************************************)
EXTENDS XmlLex, Attrs

S_XMLNS == <<120, 109, 108, 110, 115>>                 \* xmlns
P_XML   == <<120, 109, 108>>
XML_URI == <<104,116,116,112,58,47,47,119,119,119,46,119,51,46,111,114,103,47,88,77,76,47,49,57,57,56,47,110,97,109,101,115,112,97,99,101>>
XMLNS_URI == <<104,116,116,112,58,47,47,119,119,119,46,119,51,46,111,114,103,47,50,48,48,48,47,120,109,108,110,115,47>>

NsInit == [b |-> << [pfx |-> P_XML, uri |-> XML_URI, level |-> 0],
                    [pfx |-> S_XMLNS, uri |-> XMLNS_URI, level |-> 0] >>,
           nest |-> 0, pend |-> FALSE]

\* QName::as_namespace_binding on key bytes: [decl, pfx]
DeclOf(key) ==
    IF Len(key) >= 5 /\ SubSeq(key, 1, 5) = S_XMLNS THEN
        IF Len(key) = 5 THEN [decl |-> TRUE, pfx |-> <<>>]
        ELSE IF key[6] = COLON THEN [decl |-> TRUE, pfx |-> SubSeq(key, 7, Len(key))]
        ELSE [decl |-> FALSE, pfx |-> <<>>]
    ELSE [decl |-> FALSE, pfx |-> <<>>]

\* NamespaceResolver::push over the attributes of a start tag (checks off,
\* stops at the first attribute error).  Result: [ns, err]
RECURSIVE PushItems(_, _, _, _, _)
PushItems(tag, items, i, b, level) ==
    IF i > Len(items) \/ items[i].k # "Attr" THEN [b |-> b, err |-> ""]
    ELSE LET it == items[i]
             key == Slice(tag, it.klo, it.khi)
             v == Slice(tag, it.vlo, it.vhi)
             d == DeclOf(key) IN
         IF ~d.decl THEN PushItems(tag, items, i + 1, b, level)
         ELSE IF d.pfx = P_XML /\ Len(key) > 5 THEN
                 IF v # XML_URI THEN [b |-> b, err |-> "InvalidXmlPrefixBind"]
                 ELSE PushItems(tag, items, i + 1, b, level)
         ELSE IF d.pfx = S_XMLNS /\ Len(key) > 5 THEN [b |-> b, err |-> "InvalidXmlnsPrefixBind"]
         ELSE IF Len(key) > 5 /\ v = XML_URI THEN [b |-> b, err |-> "InvalidPrefixForXml"]
         ELSE IF Len(key) > 5 /\ v = XMLNS_URI THEN [b |-> b, err |-> "InvalidPrefixForXmlns"]
         ELSE PushItems(tag, items, i + 1, Append(b, [pfx |-> d.pfx, uri |-> v, level |-> level]), level)

NsPush(ns, tag, n) ==
    LET r == PushItems(tag, AttrAll(tag, n, FALSE, FALSE), 1, ns.b, ns.nest + 1) IN
    [ns |-> [ns EXCEPT !.b = r.b, !.nest = ns.nest + 1], err |-> r.err]

\* NamespaceResolver::pop: forget the bindings declared deeper than the new level
NsPop(ns) ==
    LET lvl == ns.nest - 1
        keep == {i \in 1..Len(ns.b) : ns.b[i].level <= lvl}
        last == IF keep = {} THEN 0 ELSE CHOOSE i \in keep : \A j \in keep : j <= i IN
    [ns EXCEPT !.nest = lvl, !.b = SubSeq(ns.b, 1, last), !.pend = FALSE]
NsSettle(ns) == IF ns.pend THEN NsPop(ns) ELSE ns

\* resolve_prefix: result = <<"Bound", uri>> | <<"Unbound">> | <<"Unknown", prefix>>
\* name = qualified name bytes; useDefault = element (TRUE) / attribute (FALSE)
ColonAt(name) == LET S == {i \in 1..Len(name) : name[i] = COLON} IN IF S = {} THEN 0 ELSE CHOOSE i \in S : \A j \in S : i <= j
\* QName::local_name / QName::prefix: split at the FIRST colon (none: no prefix, the whole name is local)
LocalOf(name) == IF ColonAt(name) = 0 THEN name ELSE SubSeq(name, ColonAt(name) + 1, Len(name))      \* (ColonAt is 1-based, 0 = none)
PrefixOf(name) == IF ColonAt(name) = 0 THEN <<>> ELSE SubSeq(name, 1, ColonAt(name) - 1)

NsResolve(ns, name, useDefault) ==
    LET c == ColonAt(name)
        hasP == c > 0
        p == IF hasP THEN SubSeq(name, 1, c - 1) ELSE <<>>
        \* an entry with an empty prefix is a default-namespace entry
        match(e) == IF hasP THEN (e.pfx # <<>> /\ e.pfx = p) ELSE e.pfx = <<>>
        S == {i \in 1..Len(ns.b) : match(ns.b[i])}
        unknown == IF hasP THEN <<"Unknown", p>> ELSE <<"Unbound">> IN
    IF S = {} THEN unknown
    ELSE LET e == ns.b[CHOOSE i \in S : \A j \in S : j <= i] IN
         IF ~hasP THEN (IF useDefault /\ e.uri # <<>> THEN <<"Bound", e.uri>> ELSE <<"Unbound">>)
         ELSE IF e.uri = <<>> THEN unknown ELSE <<"Bound", e.uri>>

\* NsReader::prefixes(): in declaration order, not overridden later, bound
NsPrefixes(ns) ==
    LET idx == {i \in 3..Len(ns.b) : (\A j \in (i + 1)..Len(ns.b) : ns.b[j].pfx # ns.b[i].pfx) /\ (ns.b[i].uri # <<>>)}
        RECURSIVE Lst(_)
        Lst(i) == IF i > Len(ns.b) THEN <<>>
                  ELSE (IF i \in idx THEN <<<<ns.b[i].pfx, ns.b[i].uri>>>> ELSE <<>>) \o Lst(i + 1) IN
    Lst(3)

---------------------------------------------------------------------------
\* NsReader::read_event_impl / process_event: [ev, st, ns, nserr]
NsReadEvent(s, cfg, st, ns, dev) ==
    LET ns1 == NsSettle(ns)
        r == ReadEvent(s, cfg, st, dev) IN
    IF r.ev.k \in {"Start", "Empty"} THEN
        LET p == NsPush(ns1, Slice(s, r.ev.lo, r.ev.hi), r.ev.n) IN
        [ev |-> r.ev, st |-> r.st, ns |-> [p.ns EXCEPT !.pend = (r.ev.k = "Empty" /\ p.err = "")], nserr |-> p.err]
    ELSE IF r.ev.k = "End" THEN [ev |-> r.ev, st |-> r.st, ns |-> [ns1 EXCEPT !.pend = TRUE], nserr |-> ""]
    ELSE [ev |-> r.ev, st |-> r.st, ns |-> ns1, nserr |-> ""]

\* read_resolved_event: namespace of the element name for Start/Empty/End
NsResolvedOf(s, r) ==
    IF r.ev.k \in {"Start", "Empty"} THEN NsResolve(r.ns, Slice(s, r.ev.lo, r.ev.lo + r.ev.n), TRUE)
    ELSE IF r.ev.k = "End" THEN NsResolve(r.ns, Slice(s, r.ev.lo, r.ev.hi), TRUE)
    ELSE <<"Unbound">>

\* read_to_end* / read_text on the element whose Start was just returned:
\* the element's scope ends with it.
NsSkip(s, cfg, st, ns, dev, nm) ==
    LET r == ReadToEnd(s, cfg, st, dev, nm) IN
    [r |-> r, ns |-> IF r.ok /\ "C05-1" \notin dev THEN NsPop(NsSettle(ns)) ELSE ns]

---------------------------------------------------------------------------
\* Declarative scope.  open = sequence of start-tag contents [lo, hi, n] of the
\* elements that are open (outermost first), from the TRUE nesting.
DeclsOfTag(s, t) ==     \* declarations of one tag, in order: <<[pfx, uri]>>
    LET items == AttrAll(Slice(s, t.lo, t.hi), t.n, FALSE, FALSE)
        tag == Slice(s, t.lo, t.hi)
        RECURSIVE D(_)
        D(i) == IF i > Len(items) \/ items[i].k # "Attr" THEN <<>>
                ELSE LET d == DeclOf(Slice(tag, items[i].klo, items[i].khi)) IN
                     (IF d.decl THEN <<[pfx |-> d.pfx, uri |-> Slice(tag, items[i].vlo, items[i].vhi),
                                        reserved |-> (Len(Slice(tag, items[i].klo, items[i].khi)) > 5 /\ d.pfx \in {P_XML, S_XMLNS})]>>
                      ELSE <<>>) \o D(i + 1) IN
    D(1)

\* nearest declaration of prefix p (<<>> = default) on the innermost element
\* first, the last one on a tag winning; "none" when undeclared
RECURSIVE Nearest(_, _, _, _)
Nearest(s, open, k, p) ==
    IF k = 0 THEN [found |-> FALSE, uri |-> <<>>]
    ELSE LET ds == DeclsOfTag(s, open[k])
             S == {i \in 1..Len(ds) : ds[i].pfx = p /\ ~ds[i].reserved} IN
         IF S # {} THEN [found |-> TRUE, uri |-> ds[CHOOSE i \in S : \A j \in S : j <= i].uri]
         ELSE Nearest(s, open, k - 1, p)

InScope(s, open, name, useDefault) ==
    LET c == ColonAt(name)
        p == IF c > 0 THEN SubSeq(name, 1, c - 1) ELSE <<>> IN
    IF c = 0 THEN
        IF ~useDefault THEN <<"Unbound">>                      \* unprefixed attributes: never in the default namespace
        ELSE LET d == Nearest(s, open, Len(open), <<>>) IN
             IF d.found /\ d.uri # <<>> THEN <<"Bound", d.uri>> ELSE <<"Unbound">>    \* xmlns="" removes the default
    ELSE IF p = <<>> THEN <<"Unknown", p>>      \* ":a" - an empty prefix is never declared
    ELSE LET d == Nearest(s, open, Len(open), p) IN
        IF d.found THEN (IF d.uri # <<>> THEN <<"Bound", d.uri>> ELSE <<"Unknown", p>>)   \* xmlns:p="" makes p unknown
        ELSE IF p = P_XML THEN <<"Bound", XML_URI>>            \* pre-bound
        ELSE IF p = S_XMLNS THEN <<"Bound", XMLNS_URI>>
        ELSE <<"Unknown", p>>
=============================================================================
