------------------------------- MODULE Source -------------------------------
(***************************************************************************)
(* The buffered XmlSource (impl_buffered_source! in                        *)
(* src/reader/buffered_reader.rs, used by both the BufRead and the tokio   *)
(* AsyncBufRead readers) driven by read_event_impl!/read_until_close!, as  *)
(* a machine with ONE ACTION PER fill_buf CALL.  The environment decides   *)
(* at every refill how many fresh bytes arrive (any cut of the input),     *)
(* may answer Interrupted / Pending (stutter) or another I/O error.        *)
(*                                                                         *)
(* The machine carries what the code carries across refills: the bytes     *)
(* copied so far (buf), the per-helper `read` counter, the scanner carry   *)
(* (quote state, '?' flag, DOCTYPE balance) and the reader offset.  When a *)
(* public call returns, the result must equal the result of the atomic     *)
(* one-chunk semantics XmlRead!ReadEvent (C02) - for every input, every    *)
(* cut sequence and every fault placement (C18).                           *)
(***************************************************************************)
EXTENDS XmlLex

CONSTANT FaultsOn      \* allow one non-interrupt I/O error per behaviour

VARIABLES inp, cfg,
          rs,      \* reader state between calls (XmlRead.st)
          rs0,     \* reader state at the beginning of the current call
          pc,      \* "idle" | "init" | "skipws" | "text" | "peek" | "bangpeek" | "with" | "bang" | "stop"
          cons,    \* bytes consumed from the source
          dlv,     \* bytes delivered by the source (end of the current piece)
          moff,    \* ReaderState.offset as maintained by `*position += ...`
          h,       \* helper locals: read, buf, item0, parser, q, c, ty, bal
          ret,     \* result of the last completed call: [ev, st]
          ncalls, nstut, io

svars == <<inp, cfg, rs, rs0, pc, cons, dlv, moff, h, ret, ncalls, nstut, io>>

N == Len(inp)
H0 == [read |-> 0, buf |-> <<>>, item0 |-> 0, parser |-> "", q |-> 0, c |-> FALSE, ty |-> "", bal |-> 0]
NoRet == [ev |-> Ev("None", 0, 0, 0), st |-> InitSt]

SInit(input, config) ==
    /\ inp = input /\ cfg = config
    /\ rs = InitSt /\ rs0 = InitSt /\ pc = "idle" /\ cons = 0 /\ dlv = 0 /\ moff = 0
    /\ h = H0 /\ ret = NoRet /\ ncalls = 0 /\ nstut = 0 /\ io = FALSE

\* ---- the public call: dispatch on ParseState (read_event_impl!)
Call ==
    /\ pc = "idle" /\ ~io
    /\ ncalls' = ncalls + 1
    /\ rs0' = rs
    /\ h' = H0
    /\ CASE rs.ps = "Init" -> pc' = "init" /\ UNCHANGED <<rs, ret>>
         [] rs.ps = "InsideText" -> pc' = (IF cfg.tts THEN "skipws" ELSE "text") /\ UNCHANGED <<rs, ret>>
         [] rs.ps = "InsideMarkup" -> pc' = "peek" /\ UNCHANGED <<rs, ret>>
         [] OTHER -> \* InsideEmpty, Done: no source access
              LET r == ReadEvent(inp, cfg, rs, {}) IN
              pc' = "idle" /\ rs' = r.st /\ ret' = r
    /\ UNCHANGED <<inp, cfg, cons, dlv, moff, nstut, io>>

\* what fill_buf may return now: end offset of the available piece
Deliveries == IF cons < dlv THEN {dlv} ELSE IF dlv = N THEN {N} ELSE (dlv + 1)..N

\* complete the call with the event computed by the emit layer from the raw
\* item [lo,hi) (spans of inp; Inv_Buf checks that buf holds exactly these bytes)
Return(r, c2, d2, m2, h2) ==
    /\ pc' = "idle" /\ rs' = r.st /\ ret' = r
    /\ cons' = c2 /\ dlv' = d2 /\ moff' = m2 /\ h' = h2
    /\ UNCHANGED <<inp, cfg, rs0, ncalls, nstut, io>>
Goto(p2, c2, d2, m2, h2) ==
    /\ pc' = p2 /\ cons' = c2 /\ dlv' = d2 /\ moff' = m2 /\ h' = h2
    /\ UNCHANGED <<inp, cfg, rs, rs0, ret, ncalls, nstut, io>>

SynErr(e, m2, errp) ==
    [ev |-> ErrEv(e, 0, 0, 0, 0), st |-> [rs0 EXCEPT !.off = m2, !.ps = "Done", !.errpos = errp]]

\* the reader state handed to the emit layer: offset as the machine counted it
\* minus what emit adds itself is irrelevant - Emit* derive the offset from the
\* span, Inv_Offset compares it with the machine's count.
\* one fill_buf call that returns the piece ending at offset d, and what the helper does with it
StepD(d) ==
    /\ pc \notin {"idle", "stop"}
    /\ d \in Deliveries
    /\ LET lo == cons
           hi == d
           eof == (lo = hi)
       IN
       CASE pc = "init" ->          \* remove_utf8_bom / detect_encoding (input is BOM-less here)
              Goto(IF cfg.tts THEN "skipws" ELSE "text", cons, d, moff, h)
         [] pc = "skipws" ->
              LET w == SkipWsFrom(inp, lo, hi) IN
              IF w > lo THEN Goto("skipws", w, d, moff + (w - lo), h)
              ELSE Goto("text", cons, d, moff, [h EXCEPT !.item0 = cons])
         [] pc = "text" ->
              IF eof THEN
                 \* UpToEof(buf): position += read
                 LET m2 == moff + h.read
                     lo0 == cons - Len(h.buf)
                     e  == IF cfg.tte THEN TrimEndTo(inp, lo0, cons) ELSE cons IN
                 Return([ev |-> IF e = lo0 THEN EofEv ELSE Ev("Text", lo0, e, 0),
                         st |-> [rs0 EXCEPT !.off = m2, !.ps = "Done"]], cons, d, m2, h)
              ELSE LET i == FindByte(inp, lo, hi, LT) IN
                 IF i = lo /\ h.read = 0 THEN
                    \* Some(0) if read == 0: consume the '<', go on with the markup
                    Goto("peek", cons + 1, d, moff + 1, H0)
                 ELSE IF i < hi THEN
                    \* UpToMarkup: text is buf ++ available[..i]
                    LET b2 == h.buf \o Slice(inp, lo, i)
                        r2 == h.read + (i - lo) + 1
                        m2 == moff + r2
                        lo0 == i - Len(b2)
                        e  == IF cfg.tte THEN TrimEndTo(inp, lo0, i) ELSE i IN
                    IF e = lo0   \* documented behaviour: dropped (deviation C16-1 is not part of the design)
                    THEN Goto("peek", i + 1, d, m2, [H0 EXCEPT !.buf = <<>>])
                    ELSE Return([ev |-> Ev("Text", lo0, e, 0),
                                 st |-> [rs0 EXCEPT !.off = m2, !.ps = "InsideMarkup"]],
                                i + 1, d, m2, [h EXCEPT !.buf = b2, !.read = r2])
                 ELSE Goto("text", hi, d, moff, [h EXCEPT !.buf = h.buf \o Slice(inp, lo, hi), !.read = h.read + (hi - lo)])
         [] pc = "peek" ->          \* read_until_close!: peek_one
              IF eof THEN Return(SynErr("Syntax.UnclosedTag", moff, moff - 1), cons, d, moff, h)
              ELSE LET b == At(inp, lo) IN
                 IF b = BANG
                 THEN Goto("bangpeek", cons + 1, d, moff, [H0 EXCEPT !.buf = <<BANG>>, !.read = 1, !.item0 = cons])
                 ELSE Goto("with", cons, d, moff, [H0 EXCEPT !.item0 = cons, !.parser = IF b = QM THEN "pi" ELSE "elem"])
         [] pc = "bangpeek" ->      \* read_bang_element: BangType::new(peek_one()?)
              LET ty == IF eof THEN "" ELSE BangTypeOf(At(inp, lo)) IN
              IF ty = "" THEN Return(SynErr("Syntax.InvalidBangMarkup", moff, moff - 1), cons, d, moff, h)
              ELSE Goto("bang", cons, d, moff, [h EXCEPT !.ty = ty])
         [] pc = "with" ->          \* read_with(parser)
              IF eof THEN
                 LET m2 == moff + h.read IN
                 Return(SynErr(IF h.parser = "pi" THEN "Syntax.UnclosedPIOrXmlDecl" ELSE "Syntax.UnclosedTag", m2, moff - 1),
                        cons, d, m2, h)
              ELSE LET f == IF h.parser = "pi" THEN PiFeed(inp, lo, hi, h.c) ELSE ElemFeed(inp, lo, hi, h.q) IN
                 IF f.hit >= 0 THEN
                    LET b2 == h.buf \o Slice(inp, lo, f.hit)
                        r2 == h.read + (f.hit - lo) + 1
                        m2 == moff + r2
                        st1 == [rs0 EXCEPT !.off = moff]     \* emit_* see the offset after the update below
                        r  == IF h.parser = "pi" THEN EmitQm(inp, cfg, st1, h.item0, f.hit)
                              ELSE IF At(inp, h.item0) = SLASH THEN EmitEnd(inp, cfg, st1, h.item0, f.hit)
                              ELSE EmitStart(inp, cfg, st1, h.item0, f.hit) IN
                    Return(r, f.hit + 1, d, m2, [h EXCEPT !.buf = b2, !.read = r2])
                 ELSE Goto("with", hi, d, moff,
                           [h EXCEPT !.buf = h.buf \o Slice(inp, lo, hi), !.read = h.read + (hi - lo),
                                     !.q = IF h.parser = "elem" THEN f.q ELSE h.q,
                                     !.c = IF h.parser = "pi" THEN f.c ELSE h.c])
         [] pc = "bang" ->
              IF eof THEN
                 LET m2 == moff + h.read IN
                 Return(SynErr(BangErr(h.ty), m2, moff - 1), cons, d, m2, h)
              ELSE LET f == BangParse(h.ty, h.bal, h.buf, inp, lo, hi) IN
                 IF f.hit >= 0 THEN
                    LET b2 == h.buf \o Slice(inp, lo, f.hit)
                        r2 == h.read + (f.hit - lo) + 1
                        m2 == moff + r2
                        r  == EmitBang(inp, cfg, [rs0 EXCEPT !.off = moff], h.ty, h.item0, f.hit) IN
                    Return(r, f.hit + 1, d, m2, [h EXCEPT !.buf = b2, !.read = r2])
                 ELSE Goto("bang", hi, d, moff,
                           [h EXCEPT !.buf = h.buf \o Slice(inp, lo, hi), !.read = h.read + (hi - lo), !.bal = f.bal])

Step == \E d \in Deliveries : StepD(d)

\* ErrorKind::Interrupted (every fill_buf site loops) and Poll::Pending: stutter
Stutter ==
    /\ pc \notin {"idle", "stop"} /\ cons = dlv /\ nstut < 2
    /\ nstut' = nstut + 1
    /\ UNCHANGED <<inp, cfg, rs, rs0, pc, cons, dlv, moff, h, ret, ncalls, io>>

\* any other I/O error at a refill: the call returns Io; `position += read`
IoFault ==
    /\ FaultsOn /\ ~io
    /\ pc \notin {"idle", "stop"} /\ cons = dlv
    /\ io' = TRUE /\ pc' = "stop"
    /\ ret' = [ev |-> ErrEv("Io", 0, 0, 0, 0), st |-> rs0]
    /\ moff' = IF pc \in {"text", "with", "bang"} THEN moff + h.read ELSE moff
    /\ UNCHANGED <<inp, cfg, rs, rs0, cons, dlv, h, ncalls, nstut>>

SNext == Call \/ Step \/ Stutter \/ IoFault

---------------------------------------------------------------------------
\* C02: whatever the cuts, a completed call returns what the one-chunk
\* semantics returns (event, payload span, error, offset, parse state, stack).
Inv_Refines ==
    (pc = "idle" /\ ncalls > 0) => ret = ReadEvent(inp, cfg, rs0, {})

\* the offset counted piecewise equals the offset of the one-chunk semantics
Inv_Offset == (pc = "idle" /\ ncalls > 0) => moff = rs.off

\* buf holds exactly the bytes of the item read so far
Inv_Buf ==
    pc \in {"with", "bang"} => h.buf = Slice(inp, h.item0, cons)

\* the scanner carry equals the declarative scanner state of the item prefix
Inv_Carry ==
    /\ (pc = "with" /\ h.parser = "elem") => h.q = LexQuote(inp, h.item0)[cons]
    /\ (pc = "with" /\ h.parser = "pi") => h.c = (cons > h.item0 /\ At(inp, cons - 1) = QM)
    /\ (pc = "bang" /\ h.ty = "DocType") =>
          h.bal = Count(inp, h.item0 + 1, cons, LT) - Count(inp, h.item0 + 1, cons, GT)

\* consumption never runs ahead of delivery, offsets are bounded
Inv_Env == cons <= dlv /\ dlv <= N /\ moff <= N

\* C18: an I/O error is reported in a call that needed bytes beyond those
\* delivered, as Io, and every earlier call returned the fault-free result
\* (Inv_Refines); nothing is fabricated from the partial data in buf.
NeedOf(r) ==
    IF r.st.ps = "Done" /\ r.st.off = N THEN N + 1
    ELSE IF r.ev.k = "Err" /\ r.ev.e = "Syntax.InvalidBangMarkup" THEN r.st.off + 2
    ELSE r.st.off
Inv_Fault ==
    io => /\ ret.ev.k = "Err" /\ ret.ev.e = "Io"
          /\ NeedOf(ReadEvent(inp, cfg, rs0, {})) > dlv
=============================================================================
