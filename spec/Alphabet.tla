------------------------------ MODULE Alphabet ------------------------------
(***************************************************************************)
(* Input space of the model-checking instances: byte strings built from    *)
(* markup-significant fragments (so that <![CDATA[ and <!DOCTYPE are       *)
(* reachable), curated seeds, and sets of configurations.                  *)
(***************************************************************************)
EXTENDS XmlRead

FragsBytes == { <<0>>, <<128>>, <<255>>, <<97>>, <<60>>, <<62>>, <<33>>, <<63>>, <<47>>, <<45>>,
                <<91>>, <<93>>, <<34>>, <<39>>, <<32>>, <<68>>, <<61>> }
FragsMarkup == { <<60>>, <<62>>, <<47>>, <<63>>, <<33>>, <<45>>, <<45, 45>>,
           <<91, 67, 68, 65, 84, 65, 91>>, <<93>>, <<93, 93>>,
           <<68, 79, 67, 84, 89, 80, 69>>, <<100>>, <<120, 109, 108>>, <<32>>,
           <<97>>, <<98>>, <<34>>, <<39>>, <<61>>, <<195, 169>> }

Seeds == { <<60,97,62,60,47,32,62,60,47,9,13,10,62,60,32,62,60,47,32,62>>,   \* <a></ ></ TAB CR LF>< ></ >   (end tags that are white space only)
           <<60,97,32,107,61,34,38,35,59,34,62,38,35,120,59,38,35,59,60,47,97,62>>,   \* <a k="&#;">&#x;&#;</a>   (references without digits)
           <<60,97,62,60,47,97,12,62,60,47,97,32,12,32,9,13,10,62>>,   \* <a></a FF></a SP FF SP TAB CR LF>   (form feed is white space for Rust, not for XML)
           <<60,97,62,12,120,12,60,47,97,62,12>>,                  \* <a>FF x FF</a>FF
           <<60,97,12,98,61,34,49,34,11,47,62>>,                   \* <a FF b="1" VT/>
           <<60,33,45,45,45,62,45,45,62>>,                         \* <!--->-->
           <<60,33,45,45,32,97,98,99,45,100,45,45,101,32,45,45,62,60,116,47,62>>,       \* <!-- abc-d--e --><t/>   (the double hyphen AFTER an isolated one, at offsets that do not coincide)
           <<60,33,45,45,45,97,45,98,45,45,62,60,116,47,62>>,       \* <!---a-b--><t/>   (a body that starts with a hyphen, isolated hyphens only)
           <<239,189,152,60,97,47,62>>,       \* U+FF58 <a/>   (first byte EF like a byte-order mark, but none)
           <<239,187,60,97,47,62>>,       \* EF BB <a/>    (two bytes of a mark, then markup)
           <<60,33,45,45,97,45,98,45,99,45,100,45,101,45,45,102,45,45,62,120>>,       \* <!--a-b-c-d-e--f-->x   (single hyphens before the double one)
           <<60,33,91,67,68,65,84,65,91,93,93,93,93,62>>,          \* <![CDATA[]]]]>
           <<60,97,32,98,61,39,34,62,39,62>>,                      \* <a b='">'>
           <<60,97,32,107,61,39,49,39,32,107,61,62,60,97,32,107,61,34,49,34,32,107,32,61,47,62>>,      \* <a k='1' k=><a k="1" k =/>   (a repeated key whose '=' is the last byte of the tag)
           <<60,63,63,62>>, <<60,63,62,120>>,                      \* <??>  <?>x
           <<60,33,68,79,67,84,89,80,69,32,97,32,91,60,33,69,32,120,32,34,62,34,62,93,62>>,
           <<60,33,100,111,99,116,121,112,101,62>>,                \* <!doctype>
           <<60,97,62,32,60,47,97,32,62,32,32,60,98,47,62,32>>,    \* <a> </a >  <b/>_
           <<60,63,120,109,108,32,118,63,62,60,63,120,109,108,120,63,62>>,
           <<60,33,45,45,97,45,45,45,62>>, <<60,33,45,45,45,45,97,45,45,62>>,
           <<60,97,47,62,60,47,97,62,60,47,98,62>>,
           <<239,187,191,60,97,62>>,
           <<239,187,191,32,10,60,97,47,62,32>>,       \* BOM SP LF <a/> SP   (white space directly behind the byte-order mark)
           <<32,239,187,191,120,60,97,47,62>>,       \* SP U+FEFF x <a/>   (white space, then U+FEFF as a character of the text)
           <<60,33,68,111,99,84,121,112,101,32,97,62,60,97,47,62>>,        \* <!DocType a><a/>  (mixed-case keyword)
           \* DOCTYPE with markup nested two levels deep: <!DOCTYPE r [<!-- <!E> -->]><r/>
           <<60,33,68,79,67,84,89,80,69,32,114,32,91,60,33,45,45,32,60,33,69,62,32,45,45,62,93,62,60,114,47,62>> }

Frags(FragMode) == IF FragMode = "bytes" THEN FragsBytes ELSE FragsMarkup

RECURSIVE Strs(_, _)
Strs(F, n) == IF n = 0 THEN {<<>>} ELSE LET S == Strs(F, n - 1) IN S \cup {x \o f : x \in S, f \in F}
\* construct-focused input spaces: a fixed opener followed by <= K fragments that matter inside
\* that construct (reaches nesting / terminator look-alikes the general alphabet cannot within K)
Focus(FragMode) ==
    CASE FragMode = "doctype" -> [pre |-> <<60,33,68,79,67,84,89,80,69,32,100>>, fr |-> {<<60>>, <<62>>, <<97>>, <<93>>, <<34>>, <<60,33,45,45>>}]
      [] FragMode = "comment" -> [pre |-> <<60,33,45,45>>, fr |-> {<<45>>, <<62>>, <<97>>, <<33>>, <<60>>}]
      [] FragMode = "comment2" -> [pre |-> <<60,33,45,45>>, fr |-> {<<45>>, <<97>>, <<45,45,62>>, <<62>>}]     \* hyphen runs inside a closed comment
      [] FragMode = "cdata"   -> [pre |-> <<60,33,91,67,68,65,84,65,91>>, fr |-> {<<93>>, <<62>>, <<97>>, <<91>>, <<60>>}]
      [] FragMode = "pi"      -> [pre |-> <<60,63>>, fr |-> {<<63>>, <<62>>, <<97>>, <<120,109,108>>, <<32>>}]
      \* every kind of white space (TAB LF CR) and the look-alike that is none for XML (FF) inside start tags, end tags,
      \* processing instructions and text
      [] FragMode = "ws"      -> [pre |-> <<60,97>>, fr |-> {<<9>>, <<10>>, <<13>>, <<12>>, <<62>>, <<47>>, <<60,47,97>>, <<60,47>>, <<120>>, <<60,63,112>>, <<63,62>>}]
      [] OTHER                -> [pre |-> <<60,97>>, fr |-> {<<34>>, <<39>>, <<62>>, <<47>>, <<61>>, <<32>>, <<97>>}]      \* "tag"
InputsOf(FragMode, K) ==
    IF FragMode \in {"doctype", "comment", "comment2", "cdata", "pi", "tag", "ws"}
    THEN {Focus(FragMode).pre \o x : x \in Strs(Focus(FragMode).fr, K)}
    ELSE Strs(Frags(FragMode), K) \cup Seeds

Bit(c, key) == IF c[key] THEN 1 ELSE 0
\* 8 rows covering every pair of switch values at least once, plus defaults
CoverRows == { <<0,0,0,0,0,0,0>>, <<1,1,1,1,1,1,1>>, <<0,1,0,1,0,1,0>>, <<1,0,1,0,1,0,1>>,
               <<0,0,1,1,0,0,1>>, <<1,1,0,0,1,1,0>>, <<0,1,1,0,1,0,0>>, <<1,0,0,1,0,1,1>>,
               <<0,0,1,0,1,0,0>> }
OfRow(r) == [aue |-> r[1] = 1, cc |-> r[2] = 1, cen |-> r[3] = 1, eee |-> r[4] = 1,
             tmn |-> r[5] = 1, tts |-> r[6] = 1, tte |-> r[7] = 1]
CfgsOf(CfgMode) == CASE CfgMode = "neutral" -> {NeutralCfg}
          [] CfgMode = "default" -> {DefaultCfg}
          [] CfgMode = "cover" -> {OfRow(r) : r \in CoverRows}
          [] OTHER -> AllCfgs

=============================================================================
