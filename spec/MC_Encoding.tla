---------------------------- MODULE MC_Encoding ----------------------------
(***************************************************************************)
(* C17, the decision part: constructor x first bytes x up to 3 XML         *)
(* declarations with labels from a pool.  Tiny and exhaustive.             *)
(***************************************************************************)
EXTENDS Encoding, TLC, Json
Firsts == { <<>>, <<60, 97, 62>>, <<239, 187, 191, 60>>, <<254, 255, 0, 60>>, <<255, 254, 60, 0>>, <<0, 60, 0, 63>>,
            <<60, 0, 63, 0>>, <<60, 63, 120, 109>>, <<239, 187>>, <<60, 63, 120>> }
Labels == {"", "UTF-8", "windows-1251", "Shift_JIS", "UTF-16LE"}
VARIABLES ctor, first, e, decls, phase
evars == <<ctor, first, e, decls, phase>>
Init == /\ ctor \in {"str", "reader"} /\ first \in Firsts /\ e = EncInit(ctor) /\ decls = <<>> /\ phase = "init"
Detect == phase = "init" /\ e' = EncDetect(e, first) /\ phase' = "events" /\ UNCHANGED <<ctor, first, decls>>
Decl == /\ phase = "events" /\ Len(decls) < 3
        /\ \E l \in Labels : decls' = Append(decls, l) /\ e' = EncDecl(e, l)
        /\ UNCHANGED <<ctor, first, phase>>
Next == Detect \/ Decl
Spec == Init /\ [][Next]_evars

\* an encoding fixed by constructing the reader from a string is never overridden
Inv_Explicit == ctor = "str" => e = [mode |-> "Explicit", name |-> "UTF-8"]
\* precedence: first labelled declaration wins over the sniff, later ones are ignored
FirstLabel == LET S == {i \in 1..Len(decls) : decls[i] # ""} IN IF S = {} THEN "" ELSE decls[CHOOSE i \in S : \A j \in S : i <= j]
Inv_Precedence ==
    (ctor = "reader" /\ phase = "events") =>
        IF FirstLabel # "" THEN e = [mode |-> "XmlDetected", name |-> FirstLabel]
        ELSE IF Sniff(first).name # "" THEN e = [mode |-> "BomDetected", name |-> Sniff(first).name]
        ELSE e = [mode |-> "Implicit", name |-> "UTF-8"]
\* only complete signatures count; a UTF-8 BOM is 3 bytes and is removed
Inv_Bom == /\ Sniff(<<239, 187, 191, 60>>).bom = 3 /\ Sniff(<<239, 187>>).bom = 0 /\ Sniff(<<60, 63, 120>>).name = ""
Inv_Emit == PrintT(<<"REPLAY", ToJson([ctor |-> ctor, first |-> first, decls |-> decls, mode |-> e.mode, name |-> e.name, phase |-> phase])>>)
=============================================================================
