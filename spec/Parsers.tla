------------------------------ MODULE Parsers ------------------------------
(***************************************************************************)
(* The chunk-level scanners of quick-xml, transcribed one-to-one:          *)
(*   ElementParser::feed   (src/parser/element.rs)                         *)
(*   PiParser::feed        (src/parser/pi.rs)                              *)
(*   BangType::parse       (src/reader/mod.rs)                             *)
(* Each takes the carry state left by previous chunks and one chunk        *)
(* s[lo..hi) and returns either the offset of the terminating '>' or a     *)
(* miss with the new carry.  The slice source calls them once with the     *)
(* whole rest of the input, the buffered sources once per refill           *)
(* (Source.tla); XmlLex.tla defines the same delimiters declaratively,     *)
(* without any carry, and MC_Source checks that the two agree for every    *)
(* cut.                                                                    *)
(***************************************************************************)
EXTENDS Bytes

\* ElementParser: 0 = Outside, 1 = SingleQ, 2 = DoubleQ
NextQ(q, b) ==
    CASE q = 0 /\ b = SQ -> 1
      [] q = 0 /\ b = DQ -> 2
      [] q = 1 /\ b = SQ -> 0
      [] q = 2 /\ b = DQ -> 0
      [] OTHER -> q

RECURSIVE ElemFeed(_, _, _, _)
ElemFeed(s, i, hi, q) ==
    IF i >= hi THEN [hit |-> -1, q |-> q]
    ELSE IF q = 0 /\ At(s, i) = GT THEN [hit |-> i, q |-> 0]
    ELSE ElemFeed(s, i + 1, hi, NextQ(q, At(s, i)))

\* PiParser(c): c = "previous chunk ended in '?'"
RECURSIVE PiScan(_, _, _, _, _)
PiScan(s, lo, i, hi, c) ==
    IF i >= hi THEN -1
    ELSE IF At(s, i) = GT /\ ((i = lo /\ c) \/ (i > lo /\ At(s, i - 1) = QM))
         THEN i
    ELSE PiScan(s, lo, i + 1, hi, c)
PiFeed(s, lo, hi, c) ==
    LET h == PiScan(s, lo, lo, hi, c) IN
    IF h >= 0 THEN [hit |-> h, c |-> c]
    ELSE [hit |-> -1, c |-> (hi > lo /\ At(s, hi - 1) = QM)]

\* BangType::parse(buf, chunk).  ty in {"CData","Comment","DocType"}; bal is
\* the DocType balance carried across chunks; buf the bytes of this
\* construct already copied (starts with '!').  Result: hit = offset of the
\* terminating '>' in the chunk or -1; bal = balance after the chunk.
RECURSIVE CommentScan(_, _, _, _, _)
CommentScan(buf, s, lo, hi, i) ==
    IF i >= hi THEN -1
    ELSE IF /\ At(s, i) = GT
            /\ Len(buf) + (i - lo) > 4
            /\ \/ (i - lo >= 2 /\ At(s, i - 1) = DASH /\ At(s, i - 2) = DASH)
               \/ (i - lo = 1 /\ SeqEndsWith(buf, <<DASH>>) /\ At(s, lo) = DASH)
               \/ (i - lo = 0 /\ SeqEndsWith(buf, S_DASH2))
         THEN i
    ELSE CommentScan(buf, s, lo, hi, i + 1)

RECURSIVE CDataScan(_, _, _, _, _)
CDataScan(buf, s, lo, hi, i) ==
    IF i >= hi THEN -1
    ELSE IF /\ At(s, i) = GT
            /\ \/ (i - lo >= 2 /\ At(s, i - 1) = RBR /\ At(s, i - 2) = RBR)
               \/ (i - lo = 1 /\ SeqEndsWith(buf, <<RBR>>) /\ At(s, lo) = RBR)
               \/ (i - lo = 0 /\ SeqEndsWith(buf, S_RBR2))
         THEN i
    ELSE CDataScan(buf, s, lo, hi, i + 1)

RECURSIVE DocTypeScan(_, _, _, _)
DocTypeScan(s, i, hi, bal) ==
    IF i >= hi THEN [hit |-> -1, bal |-> bal]
    ELSE IF At(s, i) = LT THEN DocTypeScan(s, i + 1, hi, bal + 1)
    ELSE IF At(s, i) = GT THEN
            IF bal = 0 THEN [hit |-> i, bal |-> 0]
            ELSE DocTypeScan(s, i + 1, hi, bal - 1)
    ELSE DocTypeScan(s, i + 1, hi, bal)

BangParse(ty, bal, buf, s, lo, hi) ==
    CASE ty = "Comment" -> [hit |-> CommentScan(buf, s, lo, hi, lo), bal |-> bal]
      [] ty = "CData"   -> [hit |-> CDataScan(buf, s, lo, hi, lo), bal |-> bal]
      [] OTHER          -> DocTypeScan(s, lo, hi, bal)

\* BangType::new(byte); "" = InvalidBangMarkup
BangTypeOf(b) ==
    CASE b = LBR -> "CData"
      [] b = DASH -> "Comment"
      [] b = UD \/ b = LD -> "DocType"
      [] OTHER -> ""

BangErr(ty) ==
    CASE ty = "CData" -> "Syntax.UnclosedCData"
      [] ty = "Comment" -> "Syntax.UnclosedComment"
      [] OTHER -> "Syntax.UnclosedDoctype"
=============================================================================
