--------------------------- MODULE MC_ReaderOps ---------------------------
(***************************************************************************)
(* Call histories on the reader (C04, C12, and C16 under flips): documents *)
(* over a tag-level alphabet, read with an arbitrary interleaving of       *)
(*   Read            read_event                                            *)
(*   Flip(key)       config_mut(): toggle one switch between two calls     *)
(*   Skip            read_to_end on the element whose Start was just read  *)
(*   Stream(n, via)  Reader::stream(): n raw bytes taken from the source   *)
(*                   through io::Read ("r") or fill_buf/consume ("b")      *)
(* Every result is compared with a history-independent reference: a        *)
(* function of the current position, the CURRENT configuration and the     *)
(* TRUE nesting of the consumed prefix (computed from the declarative      *)
(* grammar, not from the machine's stack).                                 *)
(***************************************************************************)
EXTENDS XmlLex, TLC, Json

CONSTANTS L,          \* max number of tag-level fragments
          MaxFlips, MaxSkips,
          SkipAnywhere, \* TRUE: read_to_end may also be called later (after text, children, end tags), with the name of the last Start read
          MaxStreams, \* raw reads through Reader::stream() (0 = none; the reference invariants assume none)
          FlipKeys,   \* switches that may be toggled
          KnownDevs,  \* deviations of known findings: a second track runs with them (expectation `alt`)
          InitCfgs,   \* "default" | "four" (all settings of cen/aue/eee/tmn) | "trim"
          Emit

TagFrags == { <<60,97,62>>, <<60,47,97,62>>, <<60,47,97,32,62>>, <<60,47,32,97,62>>, <<60,47,97,12,62>>, <<60,47,32,62>>,      \* ... </a > </ a> </a FF> </ >
              <<60,97,98,62>>, <<60,47,97,98,62>>,
              <<60,98,62>>, <<60,47,98,62>>, <<60,97,47,62>>, <<120>>, <<32>>,
              <<60,33,45,45,60,47,97,62,45,45,62>>,                 \* <!--</a>-->
              <<60,33,91,67,68,65,84,65,91,60,47,97,62,93,93,62>> } \* <![CDATA[</a>]]>
RECURSIVE TStrs(_)
TStrs(n) == IF n = 0 THEN {<<>>} ELSE LET S == TStrs(n - 1) IN S \cup {x \o f : x \in S, f \in TagFrags}
OpsSeeds == { <<60,97,62,60,97,62,60,47,97,62,32,60,47,97,32,62,120>>,          \* <a><a></a> </a >x
              <<60,97,62,60,98,62,60,47,97,62,60,47,98,62>>,                    \* <a><b></a></b>
              <<60,97,62,32,60,97,47,62,60,33,45,45,60,47,97,62,45,45,62,60,47,97,62,60,98,47,62>>,
              <<60,97,62,60,98,62,60,47,98>>,                                    \* truncated
              \* a lone ']' / '-' inside CDATA / a comment, later "]>" / "->" that is NOT the terminator, a look-alike end tag behind it
              <<60,97,62,60,33,91,67,68,65,84,65,91,109,93,110,93,62,60,47,97,62,93,93,62,60,47,97,62,60,98,47,62>>,      \* <a><![CDATA[m]n]></a>]]></a><b/>
              <<60,97,62,60,33,45,45,109,45,110,45,62,60,47,97,62,45,45,62,60,47,97,62,60,98,47,62>>,      \* <a><!--m-n-></a>--></a><b/>
              \* names that are not UTF-8: matched byte for byte (0xFF vs 0xFE differ; nothing equals the empty name)
              <<60,255,62,60,47,254,62,120,60,47,255,62>>,      \* <FF></FE>x</FF>
              <<60,233,62,60,47,62,60,233,47,62,60,47,233,62>> }     \* <E9></><E9/></E9>
Cfg0 == CASE InitCfgs = "default" -> {DefaultCfg}
          [] InitCfgs = "four" -> {[DefaultCfg EXCEPT !.cen = a, !.aue = b, !.eee = c, !.tmn = d] : a, b, c, d \in BOOLEAN}
          [] OTHER -> {[DefaultCfg EXCEPT !.tts = a, !.tte = b, !.eee = c] : a, b, c \in BOOLEAN}

VARIABLES inp, cfg0, cfg, st, lastStart, nflips, nskips, nstreams, done, last, hist, alt
ovars == <<inp, cfg0, cfg, st, lastStart, nflips, nskips, nstreams, done, last, hist, alt>>

NoneObs == [k |-> "None", e |-> "", lo |-> 0, hi |-> 0, n |-> 0, xlo |-> 0, xhi |-> 0, after |-> 0]
Init == /\ inp \in (TStrs(L) \cup OpsSeeds)
        /\ cfg \in Cfg0 /\ cfg0 = cfg
        /\ st = InitSt /\ lastStart = [lo |-> 0, hi |-> 0, fresh |-> FALSE]
        /\ nflips = 0 /\ nskips = 0 /\ nstreams = 0 /\ done = FALSE /\ last = [op |-> "none", o |-> NoneObs, pre |-> InitSt, c |-> cfg]
        /\ hist = <<>>
        /\ alt = [st |-> InitSt, ls |-> [lo |-> 0, hi |-> 0, fresh |-> FALSE], hist |-> <<>>]

CfgBits(c) == <<IF c.aue THEN 1 ELSE 0, IF c.cc THEN 1 ELSE 0, IF c.cen THEN 1 ELSE 0, IF c.eee THEN 1 ELSE 0,
                IF c.tmn THEN 1 ELSE 0, IF c.tts THEN 1 ELSE 0, IF c.tte THEN 1 ELSE 0>>
Row(o, ep) == <<o.k, o.e, o.lo, o.hi, o.n, o.xlo, o.xhi, o.after, ep>>

\* the second track: the same operations applied to the machine with the known
\* deviations enabled (what the code does today); the harness accepts either.
AltRead(a, c) ==
    LET r == ReadEvent(inp, c, a.st, KnownDevs) IN
    [st |-> r.st,
     ls |-> IF r.ev.k = "Start" THEN [lo |-> r.ev.lo, hi |-> r.ev.lo + r.ev.n, fresh |-> TRUE] ELSE [a.ls EXCEPT !.fresh = FALSE],
     hist |-> Append(a.hist, <<"read", Row(Obs(r), r.st.errpos)>>)]
AltSkipRow(r, c) ==
    IF r.ok THEN <<"Span", "", 0, 0, 0, 0, 0, BufferPosition(r.st), r.st.errpos, r.start, r.end, CfgBits(c)>>
    ELSE <<"Err", r.e, 0, 0, 0, 0, 0, BufferPosition(r.st), r.st.errpos, 0, 0, CfgBits(c)>>
AltSkip(a, c) ==
    IF ~a.ls.fresh THEN AltRead(a, c)      \* the harness skips only right after a Start
    ELSE LET r == ReadToEnd(inp, c, a.st, KnownDevs, Slice(inp, a.ls.lo, a.ls.hi)) IN
         [st |-> r.st, ls |-> [a.ls EXCEPT !.fresh = FALSE], hist |-> Append(a.hist, <<"rte", AltSkipRow(r, c)>>)]

Read == /\ ~done
        /\ LET r == ReadEvent(inp, cfg, st, {}) IN
           /\ st' = r.st
           /\ last' = [op |-> "read", o |-> Obs(r), pre |-> st, c |-> cfg]
           /\ done' = (r.ev.k = "Eof")
           /\ lastStart' = IF r.ev.k = "Start" THEN [lo |-> r.ev.lo, hi |-> r.ev.lo + r.ev.n, fresh |-> TRUE]
                           ELSE [lastStart EXCEPT !.fresh = FALSE]
           /\ hist' = Append(hist, <<"read", Row(Obs(r), r.st.errpos)>>)
        /\ alt' = AltRead(alt, cfg)
        /\ UNCHANGED <<inp, cfg0, cfg, nflips, nskips, nstreams>>

Flip == /\ ~done /\ nflips < MaxFlips
        /\ \E key \in FlipKeys \ {"helpers"} :
             /\ cfg' = [cfg EXCEPT ![key] = ~cfg[key]]
             /\ hist' = Append(hist, <<"cfg", CfgBits(cfg'), Row([NoneObs EXCEPT !.k = "Cfg", !.after = BufferPosition(st)], st.errpos)>>)
             /\ alt' = [alt EXCEPT !.hist = Append(alt.hist, <<"cfg", CfgBits(cfg'), Row([NoneObs EXCEPT !.k = "Cfg", !.after = BufferPosition(alt.st)], alt.st.errpos)>>)]
        /\ nflips' = nflips + 1
        /\ last' = [last EXCEPT !.op = "flip"]
        /\ UNCHANGED <<inp, cfg0, st, lastStart, nskips, nstreams, done>>

\* the two shorthands of Config, called between two reads (enabled when "helpers" is among the flip keys)
Helper == /\ ~done /\ nflips < MaxFlips /\ "helpers" \in FlipKeys
          /\ \E h \in {"trim_text", "enable_all_checks"}, b \in BOOLEAN :
               /\ cfg' = IF h = "trim_text" THEN TrimTextHelper(cfg, b) ELSE EnableAllChecksHelper(cfg, b)
               /\ hist' = Append(hist, <<"hlp", CfgBits(cfg'), Row([NoneObs EXCEPT !.k = "Cfg", !.after = BufferPosition(st)], st.errpos), h, IF b THEN 1 ELSE 0>>)
               /\ alt' = [alt EXCEPT !.hist = Append(alt.hist, <<"hlp", CfgBits(cfg'), Row([NoneObs EXCEPT !.k = "Cfg", !.after = BufferPosition(alt.st)], alt.st.errpos), h, IF b THEN 1 ELSE 0>>)]
          /\ nflips' = nflips + 1
          /\ last' = [last EXCEPT !.op = "flip"]
          /\ UNCHANGED <<inp, cfg0, st, lastStart, nskips, nstreams, done>>

SkipRow(r) ==
    IF r.ok THEN <<"Span", "", 0, 0, 0, 0, 0, BufferPosition(r.st), r.st.errpos, r.start, r.end, CfgBits(cfg)>>
    ELSE <<"Err", r.e, 0, 0, 0, 0, 0, BufferPosition(r.st), r.st.errpos, 0, 0, CfgBits(cfg)>>
Skip == /\ ~done /\ nskips < MaxSkips
        /\ (lastStart.fresh \/ (SkipAnywhere /\ lastStart.hi > lastStart.lo /\ alt.hist = hist))     \* (later skips: only while both tracks agree)
        /\ LET r == ReadToEnd(inp, cfg, st, {}, Slice(inp, lastStart.lo, lastStart.hi)) IN
           /\ st' = r.st
           /\ last' = [op |-> "skip", o |-> [NoneObs EXCEPT !.k = IF r.ok THEN "Span" ELSE "Err", !.e = r.e, !.lo = r.start, !.hi = r.end,
                                                      !.n = IF lastStart.fresh THEN 1 ELSE 0,
                                                      !.after = BufferPosition(r.st)], pre |-> st, c |-> cfg]
           /\ done' = (~r.ok /\ r.st.ps = "Done")
           /\ hist' = Append(hist, <<IF lastStart.fresh THEN "rte" ELSE "rtea", SkipRow(r)>>)
           /\ alt' = IF lastStart.fresh THEN AltSkip(alt, cfg)
                     ELSE LET ra == ReadToEnd(inp, cfg, alt.st, KnownDevs, Slice(inp, alt.ls.lo, alt.ls.hi)) IN
                          [st |-> ra.st, ls |-> alt.ls, hist |-> Append(alt.hist, <<"rtea", AltSkipRow(ra, cfg)>>)]
        /\ lastStart' = [lastStart EXCEPT !.fresh = FALSE]
        /\ nskips' = nskips + 1
        /\ UNCHANGED <<inp, cfg0, cfg, nflips, nstreams>>

\* Reader::stream(): BinaryStream hands out the bytes that follow the reader's offset and advances the offset by
\* exactly the number of bytes handed out (src/reader/mod.rs BinaryStream::read / consume); the parse state is untouched.
StreamOf(s0, n) == [s0 EXCEPT !.off = Min2(s0.off + n, Len(inp))]
RawRow(s0, s1) == Row([NoneObs EXCEPT !.k = "Raw", !.lo = s0.off, !.hi = s1.off, !.after = BufferPosition(s1)], s1.errpos)
Stream == /\ ~done /\ nstreams < MaxStreams /\ st.ps # "Done"
          /\ \E n \in {1, 3, 64}, via \in {"r", "b"} :
               /\ st' = StreamOf(st, n)
               /\ last' = [op |-> "stream", o |-> [NoneObs EXCEPT !.k = "Raw", !.lo = st.off, !.hi = st'.off, !.after = BufferPosition(st')], pre |-> st, c |-> cfg]
               /\ hist' = Append(hist, <<"raw", n, RawRow(st, st'), via>>)
               /\ alt' = [alt EXCEPT !.st = StreamOf(alt.st, n), !.ls = [alt.ls EXCEPT !.fresh = FALSE],
                                     !.hist = Append(alt.hist, <<"raw", n, RawRow(alt.st, StreamOf(alt.st, n)), via>>)]
          /\ lastStart' = [lastStart EXCEPT !.fresh = FALSE]
          /\ nstreams' = nstreams + 1
          /\ UNCHANGED <<inp, cfg0, cfg, nflips, nskips, done>>

Next == Read \/ Flip \/ Helper \/ Skip \/ Stream
Spec == Init /\ [][Next]_ovars

---------------------------------------------------------------------------
\* true nesting of the prefix consumed up to offset pos (declarative)
RECURSIVE NestOf(_, _, _)
NestOf(evs, pos, stack) ==
    IF evs = <<>> \/ Head(evs).after > pos THEN stack
    ELSE LET e == Head(evs) IN
         NestOf(Tail(evs), pos,
                IF e.k = "Start" THEN Append(stack, [lo |-> e.lo, hi |-> e.lo + e.n])
                ELSE IF e.k = "End" /\ stack # <<>> THEN Front(stack) ELSE stack)
TrueNest(pos) == NestOf(LexEvents(inp), pos, <<>>)

\* neutral stream that remains from reader state s0
RestFrom(s0) ==
    IF s0.ps = "InsideMarkup"
    THEN LET m == LexMarkup(inp, s0.off) IN
         IF m.k = "Err" /\ m.e \in SyntaxKinds THEN <<m>> ELSE <<m>> \o LexFrom(inp, m.after)
    ELSE LexFrom(inp, s0.off)

\* C04 / C16 under flips: a Read returns the head of the documented
\* transformation (under the configuration in force NOW) of what remains,
\* judged against the TRUE nesting.
RefRead(s0, c) ==
    IF s0.ps = "Done" THEN NEv("Eof", 0, 0, 0, s0.off)
    ELSE IF s0.ps = "InsideEmpty"
         THEN LET t == Last(s0.opened) IN NEv("End", t.lo, t.hi, t.hi - t.lo, s0.off)
    ELSE LET tr == Tr(inp, c, RestFrom(s0), TrueNest(s0.off)) IN
         IF tr = <<>> THEN NEv("Eof", 0, 0, 0, Len(inp)) ELSE Head(tr)

Inv_ReadRef ==
    (last.op = "read" /\ nstreams = 0) =>
        LET ref == RefRead(last.pre, last.c) IN
        \/ last.o = ref
        \* a Start produced by expanding <x/> : the reference stream has Start at the same place
        \/ (last.pre.ps = "Done" /\ last.o.k = "Eof")

\* the machine's stack is the true nesting, whatever the history
Inv_Nest == (nstreams = 0 /\ st.ps # "InsideEmpty") => st.opened = TrueNest(st.off)
Inv_NestEmpty == (nstreams = 0 /\ st.ps = "InsideEmpty") => Front(st.opened) = TrueNest(st.off)

\* C12: the skip result, declaratively, from the transformed remaining stream
\* (trim_text_start forced off, as documented): first End named nm at depth 0.
MissedEnd(nm) == IF IsUtf8(nm) THEN "IllFormed.MissingEndTag" ELSE "Encoding"
RECURSIVE FindEnd(_, _, _, _)
FindEnd(tr, nm, depth, prevAfter) ==
    IF tr = <<>> THEN [ok |-> FALSE, e |-> MissedEnd(nm), end |-> 0, after |-> 0]
    ELSE LET e == Head(tr) IN
         IF e.k = "Err" THEN [ok |-> FALSE, e |-> e.e, end |-> 0, after |-> e.after]
         ELSE IF e.k = "Eof" THEN [ok |-> FALSE, e |-> MissedEnd(nm), end |-> 0, after |-> e.after]
         ELSE IF e.k = "Start" /\ Slice(inp, e.lo, e.lo + e.n) = nm THEN FindEnd(Tail(tr), nm, depth + 1, e.after)
         ELSE IF e.k = "End" /\ Slice(inp, e.lo, e.hi) = nm
              THEN IF depth = 0 THEN [ok |-> TRUE, e |-> "", end |-> prevAfter, after |-> e.after]
                   ELSE FindEnd(Tail(tr), nm, depth - 1, e.after)
         ELSE FindEnd(Tail(tr), nm, depth, e.after)

RefSkip(s0, c, nm) ==
    LET c1 == [c EXCEPT !.tts = FALSE, !.tte = FALSE]
        start == BufferPosition(s0) IN
    IF s0.ps = "InsideEmpty" THEN [ok |-> TRUE, e |-> "", end |-> start, after |-> s0.off, start |-> start]
    ELSE LET f == FindEnd(Tr(inp, c1, RestFrom(s0), TrueNest(s0.off)), nm, 0, start) IN
         [ok |-> f.ok, e |-> f.e, end |-> f.end, after |-> f.after, start |-> start]

Inv_SkipRef ==
    (last.op = "skip" /\ nstreams = 0) =>
        LET nm == Slice(inp, lastStart.lo, lastStart.hi)
            ref == RefSkip(last.pre, last.c, nm) IN
        IF ref.ok THEN /\ last.o.k = "Span" /\ last.o.lo = ref.start /\ last.o.hi = ref.end
                       /\ last.o.after = ref.after
                       \* the span is strictly between the start tag's '>' and the end tag's '<'
                       /\ ((last.pre.ps # "InsideEmpty" /\ last.o.n = 1) =>
                             /\ At(inp, ref.start - 1) = GT
                             /\ At(inp, ref.end) = LT /\ At(inp, ref.end + 1) = SLASH)
        ELSE last.o.k = "Err" /\ last.o.e = ref.e

\* C08 with raw reads: the position moves by exactly the bytes handed out, they are the bytes at the old offset, and
\* positions never pass the end of the input, whatever follows
Inv_StreamTiling ==
    /\ BufferPosition(st) <= Len(inp)
    /\ last.op = "stream" =>
          /\ last.o.hi - last.o.lo = st.off - last.pre.off
          /\ last.o.lo = last.pre.off
          /\ BufferPosition(st) - BufferPosition(last.pre) = last.o.hi - last.o.lo

\* vacuity witness (run on a tiny instance): which operations were exercised
Inv_Witness == last.op # "none" => PrintT(<<"WITNESS", ToJson(<<last.op, last.o.k>>)>>)

Inv_Emit ==
    (Emit /\ done) =>
        PrintT(<<"REPLAY", ToJson([in |-> inp, bom |-> 0, cfg |-> CfgBits(cfg0), steps |-> hist,
                                   alt |-> IF alt.hist = hist THEN <<>> ELSE alt.hist])>>)
=============================================================================
