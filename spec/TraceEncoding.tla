--------------------------- MODULE TraceEncoding ---------------------------
(***************************************************************************)
(* Leg (C) for C17 (harness built with the `encoding` feature).            *)
(*  EncReset {ctor, first, malformed}   first = first bytes the reader saw *)
(*  EncEv {k, label, enc, bom_in_event, same, decode_ok, kind_same}        *)
(*     label = canonical name of the declaration's encoding label ("" if   *)
(*     none/unknown), enc = decoder().encoding().name() after the event,   *)
(*     same = decoded payload equals the UTF-8 original's payload,         *)
(*     kind_same = event kind equals the UTF-8 original's                  *)
(***************************************************************************)
EXTENDS Encoding, TLC, Json, IOUtils
Rec == ndJsonDeserialize(IOEnv.TRACE)
VARIABLES l, e, fresh, malformed, sawbad
tvars == <<l, e, fresh, malformed, sawbad>>
TInit == l = 1 /\ e = EncInit("reader") /\ fresh = TRUE /\ malformed = FALSE /\ sawbad = FALSE
IsRec(t) == l <= Len(Rec) /\ Rec[l].t = t /\ l' = l + 1
TReset == /\ IsRec("EncReset")
          /\ e' = EncDetect(EncInit(Rec[l].ctor), Rec[l].first)      \* the sniff happens in the first read call
          /\ fresh' = TRUE /\ malformed' = (Rec[l].malformed = 1) /\ sawbad' = FALSE
TEv == /\ IsRec("EncEv")
       /\ LET r == Rec[l]
              e2 == IF r.k = "Decl" THEN EncDecl(e, r.label) ELSE e IN
          /\ r.enc = e2.name                                   \* the encoding in force is the machine's
          /\ r.bom_in_event = 0                                \* a UTF-8 BOM never appears in any event
          /\ r.kind_same = 1                                   \* same events as the UTF-8 original
          /\ IF malformed
             THEN (r.decode_ok = 1 => r.same = 1)              \* never replacement characters: either an error or the exact text
             ELSE r.decode_ok = 1 /\ r.same = 1
          /\ e' = e2 /\ fresh' = FALSE /\ sawbad' = (sawbad \/ r.decode_ok = 0)
       /\ UNCHANGED malformed
\* a document with injected malformed bytes must have produced a decoding error
TEnd == /\ IsRec("EncEnd") /\ (malformed => sawbad) /\ UNCHANGED <<e, fresh, malformed, sawbad>>
TNext == TReset \/ TEv \/ TEnd
TSpec == TInit /\ [][TNext]_tvars
TInv_Pos == TRUE
Accepted ==
    LET d == TLCGet("stats").diameter IN
    IF d - 1 = Len(Rec) THEN PrintT(<<"TRACE", ToJson([matched |-> d - 1, total |-> Len(Rec)])>>)
    ELSE PrintT(<<"TRACE", ToJson([matched |-> d - 1, total |-> Len(Rec)])>>) /\ FALSE
=============================================================================
