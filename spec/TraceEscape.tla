---------------------------- MODULE TraceEscape ----------------------------
(***************************************************************************)
(* Leg (C) for C10.  Records written by the harness from the REAL          *)
(* functions:                                                              *)
(*  Esc  {s, full, partial, minimal, ok, out, borrowed}                    *)
(*       real escapes of s and the real unescape of s                      *)
(*  Ref  {radix, lo, hi, pad, upper, ok}  run-length encoded sweep of      *)
(*       "&#n;" / "&#xh;" over all code points lo..hi with `pad` leading   *)
(*       zeros: ok = 1 iff unescape returned exactly the character n       *)
(*  RefB {txt, ok, out}  boundary spellings with the real output bytes     *)
(***************************************************************************)
EXTENDS Escape, TLC, Json, IOUtils

Rec == ndJsonDeserialize(IOEnv.TRACE)
VARIABLES l
tvars == <<l>>
TInit == l = 1
IsRec(t) == l <= Len(Rec) /\ Rec[l].t = t /\ l' = l + 1

TEsc == /\ IsRec("Esc")
        /\ LET r == Rec[l]
               u == Unesc(r.s) IN
           \* the REAL escaped forms: safe, and the spec's unescape inverts them
           /\ SafeEscaped(r.full, "full") /\ SafeEscaped(r.partial, "partial") /\ SafeEscaped(r.minimal, "minimal")
           /\ Unesc(r.full) = [ok |-> TRUE, out |-> r.s, e |-> ""]
           /\ Unesc(r.partial) = [ok |-> TRUE, out |-> r.s, e |-> ""]
           /\ Unesc(r.minimal) = [ok |-> TRUE, out |-> r.s, e |-> ""]
           \* the REAL unescape of s: value or error exactly where the spec says
           /\ (r.ok = 1) = u.ok
           /\ u.ok => r.out = u.out
           /\ (~HasAmp(r.s)) => r.borrowed = 1
TRef == /\ IsRec("Ref")
        /\ LET r == Rec[l] IN \A n \in r.lo..r.hi : ValidScalar(n) = (r.ok = 1)
TRefB == /\ IsRec("RefB")
         /\ LET r == Rec[l]
                u == Unesc(r.txt) IN
            /\ (r.ok = 1) = u.ok
            /\ u.ok => r.out = u.out
TNext == TEsc \/ TRef \/ TRefB
TSpec == TInit /\ [][TNext]_tvars
TInv_Pos == TRUE
Accepted ==
    LET d == TLCGet("stats").diameter IN
    IF d - 1 = Len(Rec) THEN PrintT(<<"TRACE", ToJson([matched |-> d - 1, total |-> Len(Rec)])>>)
    ELSE PrintT(<<"TRACE", ToJson([matched |-> d - 1, total |-> Len(Rec)])>>) /\ FALSE
=============================================================================
