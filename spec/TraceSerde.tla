----------------------------- MODULE TraceSerde -----------------------------
(***************************************************************************)
(* Leg (C) for C06 / C13 / C19(serde): the REAL serializer output is       *)
(* parsed by the specification's reader (XmlLex + Attrs + Escape via       *)
(* Writer!ReadBack) and compared with the model's logical document.        *)
(*  Ser {ty, v, root, rt, indent, ok, out, de_same}                        *)
(***************************************************************************)
EXTENDS SerdeTypes, TLC, Json, IOUtils
Rec == ndJsonDeserialize(IOEnv.TRACE)
VARIABLES l
tvars == <<l>>
TInit == l = 1
TSer == /\ l <= Len(Rec) /\ Rec[l].t = "Ser" /\ l' = l + 1
        /\ LET r == Rec[l]
               tree == SerTree(r.v, TypeOf(r.ty), r.root)
               rb == ReadBack(r.out)
               got == NormEmpty(IF r.indent = 1 THEN DropWs(rb) ELSE rb) IN
           IF IsFail(tree)
           THEN \* the serializer may reject; if it emits something it must still be well-formed XML (C13)
                r.ok = 1 => /\ (\A i \in 1..Len(rb) : rb[i][1] # "Err") /\ Nested(NormEmpty(rb), <<>>)
                            /\ \A i \in 1..Len(rb) : /\ (rb[i][1] \in {"Start", "Empty", "End"} => IsXmlName(rb[i][2]))
                                                     /\ \A j \in 1..Len(rb[i][3]) : IsXmlName(rb[i][3][j][1])
           ELSE /\ (r.rt = 1 => r.ok = 1)                       \* C06: serialization succeeds on the domain
                /\ (r.ok = 1 => got = tree)                     \* C13: well-formed, names legal, data carried unchanged
                /\ (r.ok = 1 /\ r.rt = 1 => r.de_same = 1)      \* C06/C19: deserializing gives the value back
TNext == TSer
TSpec == TInit /\ [][TNext]_tvars
TInv_Pos == TRUE
Accepted ==
    LET d == TLCGet("stats").diameter IN
    IF d - 1 = Len(Rec) THEN PrintT(<<"TRACE", ToJson([matched |-> d - 1, total |-> Len(Rec)])>>)
    ELSE PrintT(<<"TRACE", ToJson([matched |-> d - 1, total |-> Len(Rec)])>>) /\ FALSE
=============================================================================
