------------------------------- MODULE Escape -------------------------------
(***************************************************************************)
(* src/escape.rs: escape / partial_escape / minimal_escape (and the serde  *)
(* list-item escaping), unescape_with with the five predefined entities,   *)
(* parse_number.  Strings are UTF-8 byte sequences; multi-byte characters  *)
(* are opaque groups of bytes >= 0x80, exactly as the code treats them.    *)
(* Character references are decided on digit sequences with a saturating   *)
(* value (TLC integers are 32-bit): anything >= 0x110000 is invalid.       *)
(***************************************************************************)
EXTENDS Bytes

S_LT   == <<38, 108, 116, 59>>            \* &lt;
S_GT   == <<38, 103, 116, 59>>            \* &gt;
S_AMP  == <<38, 97, 109, 112, 59>>        \* &amp;
S_APOS == <<38, 97, 112, 111, 115, 59>>   \* &apos;
S_QUOT == <<38, 113, 117, 111, 116, 59>>  \* &quot;

\* level: "full" | "partial" | "minimal" | "item" (full + XML whitespace, used
\* by the serde simple-type serializer for items of space-separated lists)
Escaped(level) ==
    CASE level = "full" -> {60, 62, 38, 39, 34}
      [] level = "partial" -> {60, 62, 38}
      [] level = "minimal" -> {60, 38}
      [] OTHER -> {60, 62, 38, 39, 34, 9, 10, 13, 32}
EscByte(b) ==
    CASE b = 60 -> S_LT [] b = 62 -> S_GT [] b = 38 -> S_AMP [] b = 39 -> S_APOS [] b = 34 -> S_QUOT
      [] b = 9 -> <<38, 35, 57, 59>> [] b = 10 -> <<38, 35, 49, 48, 59>>
      [] b = 13 -> <<38, 35, 49, 51, 59>> [] b = 32 -> <<38, 35, 51, 50, 59>>
      [] OTHER -> <<b>>
RECURSIVE EscFrom(_, _, _)
EscFrom(s, i, level) ==
    IF i > Len(s) THEN <<>>
    ELSE (IF s[i] \in Escaped(level) THEN EscByte(s[i]) ELSE <<s[i]>>) \o EscFrom(s, i + 1, level)
Esc(s, level) == EscFrom(s, 1, level)

---------------------------------------------------------------------------
ValidScalar(n) == n >= 1 /\ n <= 1114111 /\ ~(n >= 55296 /\ n <= 57343)
BIG == 1114112      \* 0x110000: saturation value

DigitVal(b, radix) ==
    IF b >= 48 /\ b <= 57 THEN b - 48
    ELSE IF radix = 16 /\ b >= 97 /\ b <= 102 THEN b - 87
    ELSE IF radix = 16 /\ b >= 65 /\ b <= 70 THEN b - 55
    ELSE -1
\* value of s[lo..hi) in the radix, saturating at BIG; -1 = not a number
RECURSIVE NumFrom(_, _, _, _, _)
NumFrom(s, i, hi, radix, acc) ==
    IF i >= hi THEN acc
    ELSE LET d == DigitVal(At(s, i), radix) IN
         IF d < 0 THEN -1 ELSE NumFrom(s, i + 1, hi, radix, Min2(acc * radix + d, BIG))
\* parse_number on s[lo..hi) (the text between "&#" and ";"): code point or -1
CharRef(s, lo, hi) ==
    LET hex == hi > lo /\ At(s, lo) = 120
        a   == IF hex THEN lo + 1 ELSE lo IN
    IF a >= hi THEN -1                                   \* empty
    ELSE IF At(s, a) = 43 \/ At(s, a) = 45 THEN -1       \* signed
    ELSE LET v == NumFrom(s, a, hi, IF hex THEN 16 ELSE 10, 0) IN
         IF v >= 0 /\ ValidScalar(v) THEN v ELSE -1

Utf8(n) ==
    IF n < 128 THEN <<n>>
    ELSE IF n < 2048 THEN <<192 + (n \div 64), 128 + (n % 64)>>
    ELSE IF n < 65536 THEN <<224 + (n \div 4096), 128 + ((n \div 64) % 64), 128 + (n % 64)>>
    ELSE <<240 + (n \div 262144), 128 + ((n \div 4096) % 64), 128 + ((n \div 64) % 64), 128 + (n % 64)>>

Entity(s, lo, hi) ==     \* resolve_xml_entity on s[lo..hi): replacement byte or -1
    LET t == Slice(s, lo, hi) IN
    CASE t = <<108, 116>> -> 60 [] t = <<103, 116>> -> 62 [] t = <<97, 109, 112>> -> 38
      [] t = <<97, 112, 111, 115>> -> 39 [] t = <<113, 117, 111, 116>> -> 34 [] OTHER -> -1

\* first offset >= p holding '&' or ';' (n if none)
RECURSIVE FindAmpSemi(_, _, _)
FindAmpSemi(s, p, n) == IF p >= n \/ At(s, p) = AMP \/ At(s, p) = SEMI THEN Min2(p, n) ELSE FindAmpSemi(s, p + 1, n)

\* unescape_with(raw, resolver): [ok, out, e].  Named references are looked up with `ent` (a function from the name's
\* byte span to the replacement bytes, <<>> = unknown); numeric references never reach the resolver; the replacement is not
\* scanned again.  unescape = unescape_with(resolve_predefined_entity).
PredefEnt(s, lo, hi) == LET x == Entity(s, lo, hi) IN IF x < 0 THEN <<>> ELSE <<x>>
\* the custom resolver used by the conformance harness: predefined entities plus  a -> "A;&"  (a replacement that looks like markup)
CustomEnt(s, lo, hi) == IF Slice(s, lo, hi) = <<97>> THEN <<65, 59, 38>> ELSE PredefEnt(s, lo, hi)
\* a catch-all resolver: every name (it is never asked about numeric references) is replaced by "?"
LenientEnt(s, lo, hi) == <<63>>
EntOf(ent, s, lo, hi) == IF ent = "custom" THEN CustomEnt(s, lo, hi) ELSE IF ent = "lenient" THEN LenientEnt(s, lo, hi) ELSE PredefEnt(s, lo, hi)
RECURSIVE UnescFromE(_, _, _)
UnescFromE(s, p, ent) ==
    LET n == Len(s)
        a == FindByte(s, p, n, AMP) IN
    IF a >= n THEN [ok |-> TRUE, out |-> Slice(s, p, n), e |-> ""]
    ELSE LET t == FindAmpSemi(s, a + 1, n) IN
         IF t >= n \/ At(s, t) # SEMI THEN [ok |-> FALSE, out |-> <<>>, e |-> "UnterminatedEntity"]
         ELSE LET rep == IF t > a + 1 /\ At(s, a + 1) = HASH
                         THEN LET c == CharRef(s, a + 2, t) IN IF c < 0 THEN <<>> ELSE Utf8(c)
                         ELSE EntOf(ent, s, a + 1, t)
                  bad == rep = <<>> IN
              IF bad THEN [ok |-> FALSE, out |-> <<>>,
                           e |-> IF t > a + 1 /\ At(s, a + 1) = HASH THEN "InvalidCharRef" ELSE "UnrecognizedEntity"]
              ELSE LET r == UnescFromE(s, t + 1, ent) IN
                   IF r.ok THEN [ok |-> TRUE, out |-> Slice(s, p, a) \o rep \o r.out, e |-> ""] ELSE r
UnescFrom(s, p) == UnescFromE(s, p, "predef")
Unesc(s) == UnescFrom(s, 0)
UnescCustom(s) == UnescFromE(s, 0, "custom")
UnescLenient(s) == UnescFromE(s, 0, "lenient")

HasAmp(s) == \E i \in 1..Len(s) : s[i] = AMP

\* the escaped form contains none of the characters the level removes, and
\* every '&' in it begins one of the references the escaper writes
Refs == {S_LT, S_GT, S_AMP, S_APOS, S_QUOT, <<38, 35, 57, 59>>, <<38, 35, 49, 48, 59>>, <<38, 35, 49, 51, 59>>, <<38, 35, 51, 50, 59>>}
SafeEscaped(t, level) ==
    \A i \in 1..Len(t) :
        /\ t[i] \in (Escaped(level) \ {38}) => FALSE
        /\ t[i] = 38 => \E r \in Refs : Len(t) - i + 1 >= Len(r) /\ SubSeq(t, i, i + Len(r) - 1) = r
=============================================================================
