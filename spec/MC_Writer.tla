----------------------------- MODULE MC_Writer -----------------------------
(***************************************************************************)
(* Mode "indent" (C19): every sequence of <= M events over all ten event   *)
(*   kinds (balanced or not; Eof, if any, last), written by the machine    *)
(*   with and without indentation (widths x chars).                        *)
(* Mode "build" (C09): every sequence of <= M constructor descriptors with *)
(*   payloads from a markup-heavy pool; the bytes written must read back   *)
(*   (reader + attribute + escape specs) as the same logical events.       *)
(* Mode "elem" (C09, C19): ElementWriter - every list of <= M operations   *)
(*   (with_attribute, with_attributes, new_line) on an element created at  *)
(*   nesting depth 0..2 of a plain or indenting writer, finished with      *)
(*   write_empty / write_text_content / write_cdata_content /              *)
(*   write_pi_content.                                                     *)
(* Sequences are grown one element at a time so TLC's workers share them.  *)
(***************************************************************************)
EXTENDS Writer, TLC, Json

CONSTANTS M, Mode, Emit, Widths

\* ---------------------------------------------------------------- indent
KindEvents == { [k |-> "Start", b |-> <<97>>], [k |-> "End", b |-> <<97>>],
                [k |-> "Empty", b |-> <<101, 32, 107, 61, 34, 49, 34>>],
                [k |-> "Text", b |-> <<116>>], [k |-> "Text", b |-> <<32>>], [k |-> "Text", b |-> <<>>],
                [k |-> "CData", b |-> <<99>>], [k |-> "CData", b |-> <<>>], [k |-> "Comment", b |-> <<32, 120, 32>>],
                [k |-> "Decl", b |-> <<120,109,108,32,118,101,114,115,105,111,110,61,34,49,46,48,34>>],
                [k |-> "PI", b |-> <<112, 32, 105>>], [k |-> "DocType", b |-> <<100>>],
                [k |-> "Eof", b |-> <<>>] }
Indents == {[on |-> TRUE, ch |-> c, size |-> n] : c \in {32, 9}, n \in Widths}

\* ---------------------------------------------------------------- build
\* (Latin Extended-A letters whose code points end in 0x22 0x26 0x27 0x3C 0x3E and whose UTF-8 forms end in A2 A6 A7 BC BE)
LOWB == <<196,162,196,166,196,167,196,188,196,190>>
Vals == { LOWB, <<>>, <<97>>, <<60>>, <<38>>, <<34>>, <<39>>, <<62>>, <<93, 93, 62>>, <<45, 45>>, <<63, 62>>, <<32>>,
          <<195, 169>>, <<38, 97, 109, 112, 59>>, <<32, 97, 32>> }
\* (literal TAB / LF / CR in an attribute value are written as they are and read back as they are: the reader does not
\* apply attribute-value normalization)
AV == { LOWB, <<>>, <<60>>, <<38>>, <<34>>, <<39>>, <<32, 97, 32>>, <<62>>, <<97, 9, 98>>, <<13, 10>> }
K1 == <<107>>   K2 == <<107, 50>>
NA == <<97>>    NE == <<195, 169>>   NB == <<97, 58, 98>>
Descs ==
    {<<"start", n, <<>>, <<>>>> : n \in {NA, NE, NB}}
    \cup {<<"start", NA, <<<<K1, v>>>>, <<>>>> : v \in AV}
    \cup {<<"empty", NA, <<<<K1, v>>>>, <<>>>> : v \in {<<>>, <<34>>, <<60>>}}
    \cup { <<"start", NA, <<<<K1, <<60>>>>>>, <<<<"set_name", <<98, 98>>>>>>>>,
           <<"start", NB, <<<<K1, <<97>>>>>>, <<<<"clear">>, <<"push", K2, <<38>>>>>>>>,
           <<"start", NA, <<>>, <<<<"extend", <<<<K1, <<49>>>>, <<K2, <<34>>>>>>>>, <<"set_name", NE>>>>>>,
           <<"empty", NE, <<<<K1, <<39>>>>, <<K2, <<32, 97, 32>>>>>>, <<>>>> }
    \cup {<<"end", n>> : n \in {NA, NE}}
    \cup {<<"text", v>> : v \in Vals}
    \cup {<<"cdata", v>> : v \in {<<>>, <<97>>, <<93, 93, 62>>, <<97, 93, 93, 62, 98, 93, 93, 62>>, <<93, 93>>, <<62>>, <<60, 38>>, <<93, 93, 93, 62, 62>>}}
    \cup {<<"comment", v>> : v \in {<<32, 120, 32>>, <<60, 38, 62>>, <<>>}}
    \cup {<<"pi", v>> : v \in {<<116, 32, 100>>, <<116, 32, 63>>, <<116>>}}
    \cup {<<"decl", <<49, 46, 48>>, <<0>>, <<0>>>>, <<"decl", <<49, 46, 48>>, <<85, 84, 70, 45, 56>>, <<121, 101, 115>>>>,
          <<"decl", <<49, 46, 49>>, <<0>>, <<110, 111>>>>}
    \cup {<<"doctype", <<100>>>>}
    \cup {<<"elem_text", NA, <<<<K1, <<38>>>>>>, v>> : v \in {<<60>>, <<>>, <<32, 97, 32>>}}
    \cup {<<"elem_empty", NE, <<<<K1, <<34>>>>>>>>, <<"elem_cdata", NA, <<>>, <<93, 93, 62>>>>, <<"elem_pi", NA, <<>>, <<116, 32, 100>>>>}

\* ---------------------------------------------------------------- elem
EOps == {<<"attr", K1, v>> : v \in {<<49>>, <<34>>, <<60>>}} \cup {<<"attr", K2, <<>>>>}
        \cup {<<"attrs", <<<<K1, <<49>>>>, <<K2, <<38>>>>>>>>, <<"attrs", <<<<NE, <<50>>>>>>>>, <<"attrs", <<>>>>, <<"nl">>}
ENames == {NA, <<97, 98, 99>>}
EFins == {<<"empty">>, <<"text", <<60>>>>, <<"inner", <<38>>>>, <<"cdata", <<99>>>>, <<"pi", <<112>>>>}
EDepths == {0, 1, 2}
\* (one indent wider than the 128 bytes of the indent cache: `additional` must grow it at depth 1 already)
ElemIndents == Indents \cup {NoIndent, [on |-> TRUE, ch |-> 32, size |-> 131]}
\* the events around and of the element: d Start events, the element, d End events
ElemEvs(ops, name, fin, d, ind) ==
    LET cur == IF ind.on THEN d * ind.size ELSE 0
        tag == EWOps(EWInit(name), ops, 1, ind, cur).buf IN
    [i \in 1..d |-> [k |-> "Start", b |-> <<114>>]] \o EWFinish(tag, name, fin) \o [i \in 1..d |-> [k |-> "End", b |-> <<114>>]]

VARIABLES seq
wvars == <<seq>>
Init == seq = <<>>
Next == /\ Len(seq) < M
        /\ IF Mode = "indent"
           THEN /\ (IF seq = <<>> THEN TRUE ELSE Last(seq).k # "Eof")
                /\ \E e \in KindEvents : seq' = Append(seq, e)
           ELSE IF Mode = "elem" THEN \E o \in EOps : seq' = Append(seq, o)
           ELSE \E d \in Descs : seq' = Append(seq, d)
Spec == Init /\ [][Next]_wvars

Evs == IF Mode = "indent" THEN seq ELSE IF Mode = "elem" THEN <<>> ELSE Flatten([i \in 1..Len(seq) |-> EventsOf(seq[i])])
Plain == Written(Evs, NoIndent)

\* machine = declarative statement of C19
Inv_Indent == Mode = "indent" => \A ind \in Indents : Written(Evs, ind) = Indented(Evs, ind)
\* ... and therefore conforms to the literal reading of C19
Inv_IndentConforms == Mode = "indent" => \A ind \in Indents : IndentConforms(Evs, Written(Evs, ind), ind)
\* plain writing is the concatenation of the renderings
Inv_Plain == Plain = Flatten([i \in 1..Len(Evs) |-> RenderW(Evs[i])])
\* read-back: dropping whitespace-only text gives the same events; payloads identical
Inv_IndentReadBack ==
    Mode = "indent" => \A ind \in Indents : DropWs(ReadBack(Written(Evs, ind))) = DropWs(ReadBack(Plain))
\* depth saturates at zero and the prefix is exactly newline + indent characters
Inv_Saturate == Mode = "indent" => \A ind \in Indents : \A i \in 1..Len(Evs) : DepthBefore(Evs, i, ind.size) >= 0

\* C09: what was built is what is read back
Inv_Build ==
    Mode = "build" =>
        ReadBack(Plain) = Coalesce(Flatten([i \in 1..Len(seq) |-> LogicalOf(seq[i])]))

\* ElementWriter: (a) without indentation the tag is the plain constructor's; (b) with indentation the operations only add
\* white space: the tag reads back (attribute grammar) as the same name and attribute list, and the whole output reads back as
\* the plain output does once whitespace-only text is dropped; (c) a tag never contains white space other than between attributes
NoNl(ops) == SelectSeq(ops, LAMBDA o : o[1] # "nl")
Inv_Elem ==
    Mode = "elem" =>
        \A name \in ENames, d \in EDepths, ind \in ElemIndents :
            LET cur == IF ind.on THEN d * ind.size ELSE 0
                ew == EWOps(EWInit(name), seq, 1, ind, cur)
                plainTag == MkStart(name, EWLogical(seq)) IN
            /\ (~ind.on => ew.buf = plainTag)
            /\ SubSeq(ew.buf, 1, ew.nlen) = name
            /\ AttrPairs(ew.buf, ew.nlen) = EWLogical(seq)
            /\ EWOps(EWInit(name), NoNl(seq), 1, ind, cur).buf = plainTag
            /\ \A fin \in EFins :
                  DropWs(ReadBack(Written(ElemEvs(seq, name, fin, d, ind), ind))) = DropWs(ReadBack(Written(ElemEvs(seq, name, fin, d, NoIndent), NoIndent)))

EvRow(e) == <<e.k, e.b>>
Inv_Emit ==
    Emit =>
        IF Mode = "elem"
        THEN PrintT(<<"REPLAY", ToJson([eops |-> seq,
                                        cases |-> {<<name, fin, d, IF ind.on THEN 1 ELSE 0, ind.ch, ind.size, Written(ElemEvs(seq, name, fin, d, ind), ind)>> :
                                                   name \in ENames, fin \in EFins, d \in EDepths, ind \in ElemIndents}])>>)
        ELSE IF Mode = "indent"
        THEN PrintT(<<"REPLAY", ToJson([evs |-> [i \in 1..Len(Evs) |-> EvRow(Evs[i])], plain |-> Plain,
                                        outs |-> {<<ind.ch, ind.size, Written(Evs, ind)>> : ind \in Indents}])>>)
        ELSE PrintT(<<"REPLAY", ToJson([ops |-> seq, plain |-> Plain,
                                        logical |-> Coalesce(Flatten([i \in 1..Len(seq) |-> LogicalOf(seq[i])]))])>>)
=============================================================================
