----------------------------- MODULE MC_Writer -----------------------------
(***************************************************************************)
(* Mode "indent" (C19): every sequence of <= M events over all ten event   *)
(*   kinds (balanced or not; Eof, if any, last), written by the machine    *)
(*   with and without indentation (widths x chars).                        *)
(* Mode "build" (C09): every sequence of <= M constructor descriptors with *)
(*   payloads from a markup-heavy pool; the bytes written must read back   *)
(*   (reader + attribute + escape specs) as the same logical events.       *)
(* Sequences are grown one element at a time so TLC's workers share them.  *)
(***************************************************************************)
EXTENDS Writer, TLC, Json

CONSTANTS M, Mode, Emit, Widths

\* ---------------------------------------------------------------- indent
KindEvents == { [k |-> "Start", b |-> <<97>>], [k |-> "End", b |-> <<97>>],
                [k |-> "Empty", b |-> <<101, 32, 107, 61, 34, 49, 34>>],
                [k |-> "Text", b |-> <<116>>], [k |-> "Text", b |-> <<32>>], [k |-> "Text", b |-> <<>>],
                [k |-> "CData", b |-> <<99>>], [k |-> "CData", b |-> <<>>], [k |-> "Comment", b |-> <<32, 120, 32>>],
                [k |-> "Decl", b |-> <<120,109,108,32,118,101,114,115,105,111,110,61,34,49,46,48,34>>],
                [k |-> "PI", b |-> <<112, 32, 105>>], [k |-> "DocType", b |-> <<100>>],
                [k |-> "Eof", b |-> <<>>] }
Indents == {[on |-> TRUE, ch |-> c, size |-> n] : c \in {32, 9}, n \in Widths}

\* ---------------------------------------------------------------- build
Vals == { <<>>, <<97>>, <<60>>, <<38>>, <<34>>, <<39>>, <<62>>, <<93, 93, 62>>, <<45, 45>>, <<63, 62>>, <<32>>,
          <<195, 169>>, <<38, 97, 109, 112, 59>>, <<32, 97, 32>> }
AV == { <<>>, <<60>>, <<38>>, <<34>>, <<39>>, <<32, 97, 32>>, <<62>> }
K1 == <<107>>   K2 == <<107, 50>>
NA == <<97>>    NE == <<195, 169>>   NB == <<97, 58, 98>>
Descs ==
    {<<"start", n, <<>>, <<>>>> : n \in {NA, NE, NB}}
    \cup {<<"start", NA, <<<<K1, v>>>>, <<>>>> : v \in AV}
    \cup {<<"empty", NA, <<<<K1, v>>>>, <<>>>> : v \in {<<>>, <<34>>, <<60>>}}
    \cup { <<"start", NA, <<<<K1, <<60>>>>>>, <<<<"set_name", <<98, 98>>>>>>>>,
           <<"start", NB, <<<<K1, <<97>>>>>>, <<<<"clear">>, <<"push", K2, <<38>>>>>>>>,
           <<"start", NA, <<>>, <<<<"extend", <<<<K1, <<49>>>>, <<K2, <<34>>>>>>>>, <<"set_name", NE>>>>>>,
           <<"empty", NE, <<<<K1, <<39>>>>, <<K2, <<32, 97, 32>>>>>>, <<>>>> }
    \cup {<<"end", n>> : n \in {NA, NE}}
    \cup {<<"text", v>> : v \in Vals}
    \cup {<<"cdata", v>> : v \in {<<>>, <<97>>, <<93, 93, 62>>, <<97, 93, 93, 62, 98, 93, 93, 62>>, <<93, 93>>, <<62>>, <<60, 38>>, <<93, 93, 93, 62, 62>>}}
    \cup {<<"comment", v>> : v \in {<<32, 120, 32>>, <<60, 38, 62>>, <<>>}}
    \cup {<<"pi", v>> : v \in {<<116, 32, 100>>, <<116, 32, 63>>, <<116>>}}
    \cup {<<"decl", <<49, 46, 48>>, <<0>>, <<0>>>>, <<"decl", <<49, 46, 48>>, <<85, 84, 70, 45, 56>>, <<121, 101, 115>>>>,
          <<"decl", <<49, 46, 49>>, <<0>>, <<110, 111>>>>}
    \cup {<<"doctype", <<100>>>>}
    \cup {<<"elem_text", NA, <<<<K1, <<38>>>>>>, v>> : v \in {<<60>>, <<>>, <<32, 97, 32>>}}
    \cup {<<"elem_empty", NE, <<<<K1, <<34>>>>>>>>, <<"elem_cdata", NA, <<>>, <<93, 93, 62>>>>, <<"elem_pi", NA, <<>>, <<116, 32, 100>>>>}

VARIABLES seq
wvars == <<seq>>
Init == seq = <<>>
Next == /\ Len(seq) < M
        /\ IF Mode = "indent"
           THEN /\ (IF seq = <<>> THEN TRUE ELSE Last(seq).k # "Eof")
                /\ \E e \in KindEvents : seq' = Append(seq, e)
           ELSE \E d \in Descs : seq' = Append(seq, d)
Spec == Init /\ [][Next]_wvars

Evs == IF Mode = "indent" THEN seq ELSE Flatten([i \in 1..Len(seq) |-> EventsOf(seq[i])])
Plain == Written(Evs, NoIndent)

\* machine = declarative statement of C19
Inv_Indent == Mode = "indent" => \A ind \in Indents : Written(Evs, ind) = Indented(Evs, ind)
\* plain writing is the concatenation of the renderings
Inv_Plain == Plain = Flatten([i \in 1..Len(Evs) |-> RenderW(Evs[i])])
\* read-back: dropping whitespace-only text gives the same events; payloads identical
Inv_IndentReadBack ==
    Mode = "indent" => \A ind \in Indents : DropWs(ReadBack(Written(Evs, ind))) = DropWs(ReadBack(Plain))
\* depth saturates at zero and the prefix is exactly newline + indent characters
Inv_Saturate == Mode = "indent" => \A ind \in Indents : \A i \in 1..Len(Evs) : DepthBefore(Evs, i, ind.size) >= 0

\* C09: what was built is what is read back
Inv_Build ==
    Mode = "build" =>
        ReadBack(Plain) = Coalesce(Flatten([i \in 1..Len(seq) |-> LogicalOf(seq[i])]))

EvRow(e) == <<e.k, e.b>>
Inv_Emit ==
    Emit =>
        IF Mode = "indent"
        THEN PrintT(<<"REPLAY", ToJson([evs |-> [i \in 1..Len(Evs) |-> EvRow(Evs[i])], plain |-> Plain,
                                        outs |-> {<<ind.ch, ind.size, Written(Evs, ind)>> : ind \in Indents}])>>)
        ELSE PrintT(<<"REPLAY", ToJson([ops |-> seq, plain |-> Plain,
                                        logical |-> Coalesce(Flatten([i \in 1..Len(seq) |-> LogicalOf(seq[i])]))])>>)
=============================================================================
