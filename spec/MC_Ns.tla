------------------------------- MODULE MC_Ns -------------------------------
(***************************************************************************)
(* C05: properly nested documents over a tag-level alphabet with           *)
(* declarations, re-declarations, un-declarations and shadowing, read with *)
(* every history of consumer calls (read event / read resolved event /     *)
(* skip the element just started).  After every call the resolver must    *)
(* agree, for a pool of element and attribute names, with the declarative  *)
(* scope computed from the TRUE nesting of the document, and the prefix    *)
(* listing with the in-scope bindings.                                     *)
(***************************************************************************)
EXTENDS NsScope, TLC, Json

CONSTANTS L, MaxSkips, Expand, Emit, KnownDevs

A(x) == x   \* readability
\* start tags (content after '<'), their end-tag name, and empty-element forms
STARTS == << <<97>>,                                                          \* a
             <<112,58,97>>,                                                   \* p:a
             <<97,32,120,109,108,110,115,61,34,117,34>>,                      \* a xmlns="u"
             <<97,9,120,109,108,110,115,61,34,34>>,                           \* a TAB xmlns=""        (every kind of white space before a declaration)
             <<97,10,120,109,108,110,115,58,112,61,34,117,34>>,               \* a LF xmlns:p="u"
             <<97,32,120,109,108,110,115,58,112,61,39,118,39>>,               \* a xmlns:p='v'
             <<97,32,120,109,108,110,115,58,112,61,34,34>>,                   \* a xmlns:p=""
             <<112,58,97,13,10,120,109,108,110,115,58,112,61,34,117,34,10,9,120,109,108,110,115,61,34,118,34>>,  \* p:a CR LF xmlns:p="u" LF TAB xmlns="v"
             <<97,32,120,109,108,110,115,58,112,61,34,117,34,32,120,109,108,110,115,58,112,61,34,118,34>>,  \* a xmlns:p="u" xmlns:p="v"
             <<97,32,120,109,108,110,115,58,113,61,34,117,34,32,112,58,107,61,34,49,34>>,                   \* a xmlns:q="u" p:k="1"
             \* the reserved prefix re-declared with its own name (legal, stores nothing) FOLLOWED by another declaration
             <<97,32,120,109,108,110,115,58,120,109,108,61,34,104,116,116,112,58,47,47,119,119,119,46,119,51,46,111,114,103,47,88,77,76,47,49,57,57,56,47,110,97,109,101,115,112,97,99,101,34,32,120,109,108,110,115,58,112,61,34,117,34>>,    \* a xmlns:xml="http://www.w3.org/XML/1998/namespace" xmlns:p="u"
             \* a declaration followed by an illegal binding of the reserved prefix (the resolver reports it; what was pushed before stays)
             <<97,32,120,109,108,110,115,58,112,61,34,117,34,32,120,109,108,110,115,58,120,109,108,61,34,118,34>> >>  \* a xmlns:p="u" xmlns:xml="v"
NameOfStart(i) == IF i \in {2, 8} THEN <<112,58,97>> ELSE <<97>>
\* a fragment: <<"S", i>> start i, <<"E">> end of the innermost open, <<"M", i>> empty element i, <<"T">> text
FragSet == {<<"S", i>> : i \in 1..Len(STARTS)} \cup {<<"E", 0>>, <<"T", 0>>} \cup {<<"M", i>> : i \in {1, 2, 5, 8}}

\* render a fragment sequence (properly nested by construction: "E" closes the innermost open start)
RECURSIVE RenderDoc(_, _, _)
RenderDoc(fs, i, stack) ==
    IF i > Len(fs) THEN <<>>
    ELSE LET f == fs[i] IN
    CASE f[1] = "S" -> <<60>> \o STARTS[f[2]] \o <<62>> \o RenderDoc(fs, i + 1, Append(stack, f[2]))
      [] f[1] = "M" -> <<60>> \o STARTS[f[2]] \o <<47, 62>> \o RenderDoc(fs, i + 1, stack)
      [] f[1] = "T" -> <<120>> \o RenderDoc(fs, i + 1, stack)
      [] OTHER -> <<60, 47>> \o NameOfStart(Last(stack)) \o <<62>> \o RenderDoc(fs, i + 1, Front(stack))
RECURSIVE Balanced(_, _, _)
Balanced(fs, i, d) == IF i > Len(fs) THEN TRUE
                      ELSE IF fs[i][1] = "S" THEN Balanced(fs, i + 1, d + 1)
                      ELSE IF fs[i][1] = "E" THEN d > 0 /\ Balanced(fs, i + 1, d - 1)
                      ELSE Balanced(fs, i + 1, d)

Pool == << <<97>>, <<112,58,97>>, <<113,58,97>>, <<120,109,108,58,97>>, <<120,109,108,110,115,58,97>> >>   \* a p:a q:a xml:a xmlns:a

VARIABLES frs, inp, cfg, st, ns, lastStart, nskips, done, last, hist, alt
nvars == <<frs, inp, cfg, st, ns, lastStart, nskips, done, last, hist, alt>>

BaseCfg == [DefaultCfg EXCEPT !.eee = Expand]
Init == /\ frs = <<>> /\ inp = <<>> /\ cfg = BaseCfg /\ st = InitSt /\ ns = NsInit
        /\ lastStart = [lo |-> 0, hi |-> 0, fresh |-> FALSE] /\ nskips = 0 /\ done = TRUE
        /\ last = [op |-> "none", ev |-> EofEv, pre |-> InitSt, post |-> InitSt, err |-> ""]
        /\ hist = <<>> /\ alt = [st |-> InitSt, ns |-> NsInit, ls |-> [lo |-> 0, hi |-> 0, fresh |-> FALSE], hist |-> <<>>, dead |-> FALSE]

\* phase 1: grow the document (workers share the enumeration); phase 2: read it
Grow == /\ done /\ hist = <<>> /\ Len(frs) < L
        /\ \E f \in FragSet : frs' = Append(frs, f) /\ Balanced(frs', 1, 0)
        /\ UNCHANGED <<inp, cfg, st, ns, lastStart, nskips, done, last, hist, alt>>
Begin == /\ done /\ hist = <<>> /\ frs # <<>> /\ inp = <<>>
         /\ inp' = RenderDoc(frs, 1, <<>>) /\ done' = FALSE
         /\ UNCHANGED <<frs, cfg, st, ns, lastStart, nskips, last, hist, alt>>

Queries(n) == [i \in 1..(2 * Len(Pool)) |->
                 IF i <= Len(Pool) THEN NsResolve(n, Pool[i], TRUE) ELSE NsResolve(n, Pool[i - Len(Pool)], FALSE)]
EvRow(ev, s1) == <<ev.k, ev.e, ev.lo, ev.hi, ev.n, ev.xlo, ev.xhi, BufferPosition(s1), s1.errpos>>

AltRead(a) ==
    IF a.dead THEN a ELSE
    LET r == NsReadEvent(inp, cfg, a.st, a.ns, KnownDevs) IN
    [st |-> r.st, ns |-> r.ns, dead |-> r.nserr # "",
     ls |-> IF r.ev.k = "Start" THEN [lo |-> r.ev.lo, hi |-> r.ev.lo + r.ev.n, fresh |-> TRUE] ELSE [a.ls EXCEPT !.fresh = FALSE],
     hist |-> Append(a.hist, <<"read", EvRow(r.ev, r.st), NsResolvedOf(inp, r), Queries(r.ns), NsPrefixes(r.ns), r.nserr>>)]
AltSkip(a) ==
    IF a.dead THEN a ELSE
    IF a.st.opened = <<>> THEN AltRead(a) ELSE
    LET k == NsSkip(inp, cfg, a.st, a.ns, KnownDevs, Slice(inp, Last(a.st.opened).lo, Last(a.st.opened).hi)) IN
    [st |-> k.r.st, ns |-> k.ns, dead |-> FALSE, ls |-> [a.ls EXCEPT !.fresh = FALSE],
     hist |-> Append(a.hist, <<"rte", <<IF k.r.ok THEN "Span" ELSE "Err", k.r.e, 0, 0, 0, 0, 0, BufferPosition(k.r.st), k.r.st.errpos, k.r.start, k.r.end>>,
                              <<"Unbound">>, Queries(k.ns), NsPrefixes(k.ns), "">>)]

Read == /\ ~done
        /\ LET r == NsReadEvent(inp, cfg, st, ns, {}) IN
           /\ st' = r.st /\ ns' = r.ns
           /\ last' = [op |-> "read", ev |-> r.ev, pre |-> st, post |-> r.st, err |-> r.nserr]
           /\ done' = (r.ev.k \in {"Eof", "Err"} \/ r.nserr # "")
           /\ lastStart' = IF r.ev.k = "Start" THEN [lo |-> r.ev.lo, hi |-> r.ev.lo + r.ev.n, fresh |-> TRUE]
                           ELSE [lastStart EXCEPT !.fresh = FALSE]
           /\ hist' = Append(hist, <<"read", EvRow(r.ev, r.st), NsResolvedOf(inp, r), Queries(r.ns), NsPrefixes(r.ns), r.nserr>>)
        /\ alt' = AltRead(alt)
        /\ UNCHANGED <<frs, inp, cfg, nskips>>

\* skip the rest of the innermost open element (right after its Start, or after some of its
\* children were read event by event - then a pop may still be owed for the last Empty/End)
OpenName(s0) == Slice(inp, Last(s0.opened).lo, Last(s0.opened).hi)
Skip == /\ ~done /\ nskips < MaxSkips /\ st.opened # <<>>
        /\ LET k == NsSkip(inp, cfg, st, ns, {}, OpenName(st)) IN
           /\ st' = k.r.st /\ ns' = k.ns
           /\ last' = [op |-> "skip", ev |-> EofEv, pre |-> st, post |-> k.r.st, err |-> IF k.r.ok THEN "" ELSE "skip-failed"]
           /\ done' = ~k.r.ok
           /\ hist' = Append(hist, <<"rte", <<IF k.r.ok THEN "Span" ELSE "Err", k.r.e, 0, 0, 0, 0, 0, BufferPosition(k.r.st), k.r.st.errpos, k.r.start, k.r.end>>,
                                    <<"Unbound">>, Queries(k.ns), NsPrefixes(k.ns), "">>)
        /\ lastStart' = [lastStart EXCEPT !.fresh = FALSE]
        /\ nskips' = nskips + 1
        /\ alt' = AltSkip(alt)
        /\ UNCHANGED <<frs, inp, cfg>>

Next == Grow \/ Begin \/ Read \/ Skip
Spec == Init /\ [][Next]_nvars

---------------------------------------------------------------------------
\* the open start tags (full content) of the prefix consumed up to pos
RECURSIVE NestTags(_, _, _)
NestTags(evs, pos, stack) ==
    IF evs = <<>> \/ Head(evs).after > pos THEN stack
    ELSE LET e == Head(evs) IN
         NestTags(Tail(evs), pos,
                  IF e.k = "Start" THEN Append(stack, [lo |-> e.lo, hi |-> e.hi, n |-> e.n])
                  ELSE IF e.k = "End" /\ stack # <<>> THEN Front(stack) ELSE stack)
OpenAt(pos) == NestTags(LexEvents(inp), pos, <<>>)

\* content end of the empty tag that ends at offset off ("/>" precedes off)
EmptyHi(off) == off - 2
\* the elements whose declarations are in scope right after the last call
ScopeNow ==
    CASE last.op = "read" /\ last.ev.k = "End" /\ last.pre.ps # "InsideEmpty" -> OpenAt(last.pre.off)   \* the element being closed is still in scope
      [] last.op = "read" /\ last.ev.k = "End" ->                                                       \* synthetic End of an expanded <x/>
            Append(OpenAt(last.pre.off), [lo |-> last.pre.opened[Len(last.pre.opened)].lo, hi |-> EmptyHi(last.pre.off), n |-> last.ev.n])
      [] last.op = "read" /\ last.ev.k = "Empty" ->
            Append(OpenAt(st.off), [lo |-> last.ev.lo, hi |-> last.ev.hi, n |-> last.ev.n])
      [] last.op = "read" /\ last.ev.k = "Start" /\ st.ps = "InsideEmpty" ->
            Append(OpenAt(st.off), [lo |-> last.ev.lo, hi |-> last.ev.hi, n |-> last.ev.n])
      [] OTHER -> OpenAt(st.off)

Inv_Scope ==
    (hist # <<>> /\ last.err = "") =>
        LET open == ScopeNow IN
        \A i \in 1..Len(Pool) :
            /\ NsResolve(ns, Pool[i], TRUE) = InScope(inp, open, Pool[i], TRUE)
            /\ NsResolve(ns, Pool[i], FALSE) = InScope(inp, open, Pool[i], FALSE)

\* prefixes(): exactly the prefixes (default included) that are bound in scope
Inv_Prefixes ==
    (hist # <<>> /\ last.err = "") =>
        LET open == ScopeNow
            lst == NsPrefixes(ns) IN
        /\ \A i \in 1..Len(lst) :
              LET nm == IF lst[i][1] = <<>> THEN <<97>> ELSE lst[i][1] \o <<58, 97>> IN
              InScope(inp, open, nm, TRUE) = <<"Bound", lst[i][2]>>
        /\ \A i, j \in 1..Len(lst) : i # j => lst[i][1] # lst[j][1]
        /\ \A p \in {<<>>, <<112>>, <<113>>} :
              LET nm == IF p = <<>> THEN <<97>> ELSE p \o <<58, 97>>
                  r == InScope(inp, open, nm, TRUE) IN
              r[1] = "Bound" => \E i \in 1..Len(lst) : lst[i][1] = p /\ lst[i][2] = r[2]

\* bookkeeping: nesting level = number of open elements (+1 while a pop is owed)
Inv_Level == (hist # <<>> /\ last.err = "") => ns.nest = Len(ScopeNow)

Inv_Witness == last.op # "none" => PrintT(<<"WITNESS", ToJson(<<last.op, last.ev.k>>)>>)

Inv_Emit ==
    (Emit /\ done /\ hist # <<>>) =>
        PrintT(<<"REPLAY", ToJson([in |-> inp, cfg |-> <<0, 0, 1, IF Expand THEN 1 ELSE 0, 1, 0, 0>>, steps |-> hist,
                                   alt |-> IF alt.hist = hist THEN <<>> ELSE alt.hist])>>)
=============================================================================
