----------------------------- MODULE MC_Source -----------------------------
(***************************************************************************)
(* Model-checking instance for Source.tla (C02, C18): every input of <= K  *)
(* fragments, every way of delivering it in pieces (the cut is chosen at   *)
(* each refill, so behaviours that differ only in earlier cuts merge),     *)
(* Interrupted/Pending stutters, and optionally one I/O error at any       *)
(* refill.                                                                 *)
(***************************************************************************)
EXTENDS Source, Alphabet, TLC, Json

CONSTANTS K, FragMode, CfgMode

\* the source level only depends on trim_text_start; the other switches act in
\* the emit layer, which Source.tla shares with XmlRead.tla
SourceCfgs ==
    CASE CfgMode = "two" -> {DefaultCfg, [DefaultCfg EXCEPT !.tts = TRUE, !.tte = TRUE, !.eee = TRUE, !.cc = TRUE]}
      [] OTHER -> CfgsOf(CfgMode)

MCInit == \E x \in InputsOf(FragMode, K), c \in SourceCfgs : SInit(StripBom(x, FALSE), c)

\* stop calling after the first Eof
MCCall == ~(ncalls > 0 /\ pc = "idle" /\ ret.ev.k = "Eof") /\ Call
MCNext == MCCall \/ Step \/ Stutter \/ IoFault
\* vacuity witness (run on a tiny instance): control points, faults, stutters reached
Inv_Witness == PrintT(<<"WITNESS", ToJson(<<pc, IF io THEN "io" ELSE "", IF nstut > 0 THEN "stutter" ELSE "", IF dlv > cons THEN "partial" ELSE "">>)>>)
MCSpec == MCInit /\ [][MCNext]_svars
=============================================================================
