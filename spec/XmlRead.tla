------------------------------ MODULE XmlRead ------------------------------
(***************************************************************************)
(* The pull reader as a function "one public call":                        *)
(*   ReadEvent(s, cfg, st, dev) = [ev, st']                                *)
(* following read_event_impl!/read_until_close! (src/reader/mod.rs), the   *)
(* slice XmlSource (src/reader/slice_reader.rs: every scanner sees the     *)
(* whole rest of the input as one chunk) and ReaderState::emit_*           *)
(* (src/reader/state.rs).  s is the input after removal of the byte-order  *)
(* mark; all offsets are relative to it.                                   *)
(*                                                                         *)
(* st  = [off, ps, opened, errpos]                                         *)
(*       off    bytes consumed (ReaderState.offset)                        *)
(*       ps     ParseState: "Init" "InsideText" "InsideMarkup"             *)
(*              "InsideEmpty" "Done"                                       *)
(*       opened open-element stack as spans [lo,hi) of names in s          *)
(*       errpos last_error_offset                                          *)
(* cfg = the seven switches of Config                                      *)
(* ev  = [k, e, lo, hi, n, xlo, xhi]; payload = Slice(s, lo, hi)           *)
(*       k in Start End Empty Text CData Comment Decl PI DocType Eof Err   *)
(*       n = name length (Start/Empty/PI/Decl); for Err: e = error kind,   *)
(*       [lo,hi) = found name, [xlo,xhi) = expected name                   *)
(* dev = set of enabled deviation ids (known findings, DESIGN section 8):  *)
(*       "C16-1"  an empty Text is emitted for a whitespace-only run       *)
(*                before markup when trim_text_end /\ ~trim_text_start     *)
(***************************************************************************)
EXTENDS Parsers

CfgKeys == {"aue", "cc", "cen", "eee", "tmn", "tts", "tte"}
\* allow_unmatched_ends, check_comments, check_end_names, expand_empty_elements,
\* trim_markup_names_in_closing_tags, trim_text_start, trim_text_end
DefaultCfg == [aue |-> FALSE, cc |-> FALSE, cen |-> TRUE, eee |-> FALSE,
               tmn |-> TRUE, tts |-> FALSE, tte |-> FALSE]
NeutralCfg == [aue |-> TRUE, cc |-> FALSE, cen |-> FALSE, eee |-> FALSE,
               tmn |-> FALSE, tts |-> FALSE, tte |-> FALSE]
AllCfgs == [CfgKeys -> BOOLEAN]

InitSt == [off |-> 0, ps |-> "Init", opened |-> <<>>, errpos |-> 0]

Ev(k, lo, hi, n) == [k |-> k, e |-> "", lo |-> lo, hi |-> hi, n |-> n, xlo |-> 0, xhi |-> 0]
EofEv == Ev("Eof", 0, 0, 0)
ErrEv(e, lo, hi, xlo, xhi) == [k |-> "Err", e |-> e, lo |-> lo, hi |-> hi, n |-> 0, xlo |-> xlo, xhi |-> xhi]

IllFormedKinds == {"IllFormed.DoubleHyphenInComment", "IllFormed.MissingDoctypeName",
                   "IllFormed.MismatchedEndTag", "IllFormed.UnmatchedEndTag",
                   "IllFormed.MissingEndTag"}
SyntaxKinds == {"Syntax.InvalidBangMarkup", "Syntax.UnclosedPIOrXmlDecl", "Syntax.UnclosedComment",
                "Syntax.UnclosedDoctype", "Syntax.UnclosedCData", "Syntax.UnclosedTag"}
IsIllFormed(ev) == ev.k = "Err" /\ ev.e \in IllFormedKinds
IsSyntax(ev)    == ev.k = "Err" /\ ev.e \in SyntaxKinds

\* Config helpers (src/reader/mod.rs Config::trim_text / enable_all_checks): documented as shorthands for exactly these switches
TrimTextHelper(cfg, b) == [cfg EXCEPT !.tts = b, !.tte = b]
EnableAllChecksHelper(cfg, b) == [cfg EXCEPT !.cc = b, !.cen = b]

BufferPosition(st) == IF st.ps = "InsideMarkup" THEN st.off - 1 ELSE st.off

\* UTF-8 BOM removal (feature `encoding` off: remove_utf8_bom; on:
\* detect_encoding, which also removes the two-byte UTF-16 marks)
BomLen(raw, enc) ==
    IF StartsAt(raw, 0, Len(raw), UTF8_BOM) THEN 3
    ELSE IF enc /\ (StartsAt(raw, 0, Len(raw), <<254, 255>>) \/ StartsAt(raw, 0, Len(raw), <<255, 254>>)) THEN 2
    ELSE 0
StripBom(raw, enc) == SubSeq(raw, BomLen(raw, enc) + 1, Len(raw))
\* The same for a source that delivers the input in pieces, `first` = size of the first piece.  The design (what C14
\* demands: the result does not depend on the pieces) strips the mark whatever the pieces are.  Deviation "C14-1" is what
\* the buffered sources do (impl_buffered_source!: remove_utf8_bom / detect_encoding look at ONE fill_buf result): a
\* first piece that does not contain the whole mark leaves it in the stream.  (C02 exempts this sniff explicitly.)
SniffLen(raw, first, enc, dev) ==
    IF "C14-1" \in dev /\ first < BomLen(raw, enc) THEN 0 ELSE BomLen(raw, enc)

---------------------------------------------------------------------------
\* ReaderState::emit_bang.  [lo,hi) = bytes after '<' up to the '>' (starts
\* with '!'); off = offset after the '>'.
\* Position of the first "--" inside a comment body [a, b) (b = start of the
\* closing "--"); the byte after a '-' may be the first closing dash.
RECURSIVE DoubleDash(_, _, _, _)
DoubleDash(s, i, b, prev) ==   \* prev = offset after the previous single '-' (or a)
    IF i >= b THEN [found |-> FALSE, rel |-> 0]
    ELSE IF At(s, i) = DASH THEN
            IF At(s, i + 1) = DASH THEN [found |-> TRUE, rel |-> i - prev]
            ELSE DoubleDash(s, i + 1, b, i + 1)
    ELSE DoubleDash(s, i + 1, b, prev)

EmitBang(s, cfg, st, ty, lo, hi) ==
    LET off == hi + 1
        st1 == [st EXCEPT !.off = off, !.ps = "InsideText"] IN
    IF ty = "Comment" /\ StartsAt(s, lo, hi, S_BDASH2) THEN
        LET dd == IF cfg.cc THEN DoubleDash(s, lo + 3, hi - 2, lo + 3)
                  ELSE [found |-> FALSE, rel |-> 0] IN
        IF dd.found
        THEN [ev |-> ErrEv("IllFormed.DoubleHyphenInComment", 0, 0, 0, 0),
              st |-> [st1 EXCEPT !.errpos = off - (hi - lo) + 2 + dd.rel]]
        ELSE [ev |-> Ev("Comment", lo + 3, hi - 2, 0), st |-> st1]
    ELSE IF ty = "CData" /\ StartsAt(s, lo, hi, S_BCDATA) THEN
        [ev |-> Ev("CData", lo + 8, hi - 2, 0), st |-> st1]
    ELSE IF ty = "DocType" /\ StartsAtNoCase(s, lo, hi, S_BDOCT) THEN
        LET b == SkipWsFrom(s, lo + 8, hi) IN
        IF b < hi THEN [ev |-> Ev("DocType", b, hi, 0), st |-> st1]
        ELSE [ev |-> ErrEv("IllFormed.MissingDoctypeName", 0, 0, 0, 0),
              st |-> [st1 EXCEPT !.errpos = off - 1]]
    ELSE [ev |-> ErrEv(BangErr(ty), 0, 0, 0, 0),
          st |-> [st1 EXCEPT !.errpos = lo - 1, !.ps = "Done"]]

\* ReaderState::emit_end.  [lo,hi) starts with '/'.
EmitEnd(s, cfg, st, lo, hi) ==
    LET off == hi + 1
        t   == TrimEndTo(s, lo + 1, hi)
        nhi == IF cfg.tmn /\ t > lo + 1 THEN t ELSE hi
        st1 == [st EXCEPT !.off = off, !.ps = "InsideText"]
        ok  == [ev |-> Ev("End", lo + 1, nhi, nhi - lo - 1), st |-> st1] IN
    IF st.opened # <<>> THEN
        LET top == Last(st.opened)
            st2 == [st1 EXCEPT !.opened = Front(st.opened)] IN
        IF cfg.cen /\ Slice(s, lo + 1, nhi) # Slice(s, top.lo, top.hi)
        THEN [ev |-> ErrEv("IllFormed.MismatchedEndTag", lo + 1, nhi, top.lo, top.hi),
              st |-> [st2 EXCEPT !.errpos = lo - 1]]
        ELSE [ok EXCEPT !.st = st2]
    ELSE IF ~cfg.aue
        THEN [ev |-> ErrEv("IllFormed.UnmatchedEndTag", lo + 1, nhi, 0, 0),
              st |-> [st1 EXCEPT !.errpos = lo - 1]]
        ELSE ok

\* ReaderState::emit_question_mark.  [lo,hi) starts with '?'.
EmitQm(s, cfg, st, lo, hi) ==
    LET off == hi + 1
        st1 == [st EXCEPT !.off = off, !.ps = "InsideText"] IN
    IF hi - lo > 1 /\ At(s, hi - 1) = QM THEN
        LET clo == lo + 1
            chi == hi - 1 IN
        IF StartsAt(s, clo, chi, S_XML) /\ (chi - clo = 3 \/ IsWs(At(s, clo + 3)))
        THEN [ev |-> Ev("Decl", clo, chi, 3), st |-> st1]
        ELSE [ev |-> Ev("PI", clo, chi, NameLen(s, clo, chi)), st |-> st1]
    ELSE [ev |-> ErrEv("Syntax.UnclosedPIOrXmlDecl", 0, 0, 0, 0),
          st |-> [st1 EXCEPT !.errpos = lo - 1, !.ps = "Done"]]

\* ReaderState::emit_start.
EmitStart(s, cfg, st, lo, hi) ==
    LET off == hi + 1
        st1 == [st EXCEPT !.off = off, !.ps = "InsideText"] IN
    IF hi > lo /\ At(s, hi - 1) = SLASH THEN
        LET n == NameLen(s, lo, hi - 1) IN
        IF cfg.eee
        THEN [ev |-> Ev("Start", lo, hi - 1, n),
              st |-> [st1 EXCEPT !.ps = "InsideEmpty",
                                 !.opened = Append(st.opened, [lo |-> lo, hi |-> lo + n])]]
        ELSE [ev |-> Ev("Empty", lo, hi - 1, n), st |-> st1]
    ELSE LET n == NameLen(s, lo, hi) IN
        [ev |-> Ev("Start", lo, hi, n),
         st |-> [st1 EXCEPT !.opened = Append(st.opened, [lo |-> lo, hi |-> lo + n])]]

\* read_until_close!: st.off = p is just after a consumed '<'.
Markup(s, cfg, st) ==
    LET N == Len(s)
        p == st.off
        synErr(e, off) == [ev |-> ErrEv(e, 0, 0, 0, 0),
                           st |-> [st EXCEPT !.off = off, !.ps = "Done", !.errpos = p - 1]] IN
    IF p >= N THEN synErr("Syntax.UnclosedTag", p)
    ELSE LET b == At(s, p) IN
    CASE b = BANG ->
            LET ty == IF p + 1 < N THEN BangTypeOf(At(s, p + 1)) ELSE "" IN
            IF ty = "" THEN synErr("Syntax.InvalidBangMarkup", p)
            ELSE LET r == BangParse(ty, 0, <<>>, s, p, N) IN
                 IF r.hit >= 0 THEN EmitBang(s, cfg, st, ty, p, r.hit)
                 ELSE synErr(BangErr(ty), N)
      [] b = SLASH ->
            LET r == ElemFeed(s, p, N, 0) IN
            IF r.hit >= 0 THEN EmitEnd(s, cfg, st, p, r.hit)
            ELSE synErr("Syntax.UnclosedTag", N)
      [] b = QM ->
            LET r == PiFeed(s, p, N, FALSE) IN
            IF r.hit >= 0 THEN EmitQm(s, cfg, st, p, r.hit)
            ELSE synErr("Syntax.UnclosedPIOrXmlDecl", N)
      [] OTHER ->
            LET r == ElemFeed(s, p, N, 0) IN
            IF r.hit >= 0 THEN EmitStart(s, cfg, st, p, r.hit)
            ELSE synErr("Syntax.UnclosedTag", N)

\* ParseState::InsideText arm of read_event_impl!
TextStep(s, cfg, st, dev) ==
    LET N  == Len(s)
        p1 == IF cfg.tts THEN SkipWsFrom(s, st.off, N) ELSE st.off
        q  == FindByte(s, p1, N, LT) IN
    IF q < N THEN
        IF q = p1 THEN Markup(s, cfg, [st EXCEPT !.off = q + 1])
        ELSE LET h == IF cfg.tte THEN TrimEndTo(s, p1, q) ELSE q IN
             IF h = p1 /\ "C16-1" \notin dev
             THEN Markup(s, cfg, [st EXCEPT !.off = q + 1])   \* documented: dropped
             ELSE [ev |-> Ev("Text", p1, h, 0),
                   st |-> [st EXCEPT !.off = q + 1, !.ps = "InsideMarkup"]]
    ELSE LET h == IF cfg.tte THEN TrimEndTo(s, p1, N) ELSE N IN
         [ev |-> IF h = p1 THEN EofEv ELSE Ev("Text", p1, h, 0),
          st |-> [st EXCEPT !.off = N, !.ps = "Done"]]

ReadEvent(s, cfg, st, dev) ==
    CASE st.ps = "Done" -> [ev |-> EofEv, st |-> st]
      [] st.ps = "InsideEmpty" ->
            LET top == Last(st.opened) IN
            [ev |-> Ev("End", top.lo, top.hi, top.hi - top.lo),
             st |-> [st EXCEPT !.ps = "InsideText", !.opened = Front(st.opened)]]
      [] st.ps = "InsideMarkup" -> Markup(s, cfg, st)
      [] OTHER -> TextStep(s, cfg, st, dev)      \* Init, InsideText

\* Would the deviation change the outcome of this call?
UsesDev(s, cfg, st, d) == ReadEvent(s, cfg, st, {d}) # ReadEvent(s, cfg, st, {})

---------------------------------------------------------------------------
(* read_to_end! (Reader::read_to_end / read_to_end_into / _async and the   *)
(* slice read_text).  name = [lo,hi) span of the element name in s.        *)
(* Result: [ok, e, start, end, st, calls]; cfg is restored by construction *)
(* (the spec never changes it) - the implementation's temporary change of  *)
(* trim_text_start is observable only through config(), which traces log.  *)
(* The design also switches trim_text_end off inside the loop: the span    *)
(* must end at the '<' of the end tag (C12), and a trailing whitespace-only*)
(* run must therefore not be merged into the call that reads the end tag.  *)
(* The code reaches the same spans because it emits that run as an (empty) *)
(* Text event of its own (finding C16-1); events are not observable here.  *)
RECURSIVE RteLoop(_, _, _, _, _, _, _, _)
RteLoop(s, cfg, st, dev, nm, depth, start, fuel) ==
    LET end == BufferPosition(st)
        r   == ReadEvent(s, cfg, st, dev) IN
    IF fuel = 0 THEN [ok |-> FALSE, e |-> "Fuel", start |-> start, end |-> end, st |-> st]
    ELSE IF r.ev.k = "Err" THEN [ok |-> FALSE, e |-> r.ev.e, start |-> start, end |-> end, st |-> r.st]
    \* (Error::missed_end decodes the name for the message: a name that is not UTF-8 surfaces as an Encoding error instead)
    ELSE IF r.ev.k = "Eof" THEN [ok |-> FALSE, e |-> IF IsUtf8(nm) THEN "IllFormed.MissingEndTag" ELSE "Encoding", start |-> start, end |-> end, st |-> r.st]
    ELSE IF r.ev.k = "Start" /\ Slice(s, r.ev.lo, r.ev.lo + r.ev.n) = nm
         THEN RteLoop(s, cfg, r.st, dev, nm, depth + 1, start, fuel - 1)
    ELSE IF r.ev.k = "End" /\ Slice(s, r.ev.lo, r.ev.hi) = nm
         THEN IF depth = 0 THEN [ok |-> TRUE, e |-> "", start |-> start, end |-> end, st |-> r.st]
              ELSE RteLoop(s, cfg, r.st, dev, nm, depth - 1, start, fuel - 1)
    ELSE RteLoop(s, cfg, r.st, dev, nm, depth, start, fuel - 1)

ReadToEnd(s, cfg, st, dev, nm) ==
    RteLoop(s, [cfg EXCEPT !.tts = FALSE, !.tte = FALSE], st, dev, nm, 0, BufferPosition(st), 2 * Len(s) + 4)
=============================================================================
