SPECIFICATION Spec
CONSTANTS
  K = 2
  CfgMode = "default"
  Emit = TRUE
  KnownDevs = {"C16-1"}
INVARIANTS Inv_RefMatch Inv_Total Inv_Tiling Inv_Nesting Inv_Emit
CHECK_DEADLOCK FALSE
