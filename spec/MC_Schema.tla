----------------------------- MODULE MC_Schema -----------------------------
(***************************************************************************)
(* C06 / C13 / C14 / C19 over a SPACE OF TYPES: instead of the hand-written *)
(* family, every struct type that can be assembled from a catalogue of     *)
(* field shapes                                                            *)
(*    attributes   x  {string, number, bool, float, unit enum, Option,     *)
(*                     space-separated lists}                              *)
(*    elements     x  {the same primitives, Option, element lists, nested  *)
(*                     structs (with attribute / text / element content),  *)
(*                     Option and lists of those}                          *)
(*    content      x  {$text of string / number / list,                    *)
(*                     $value of a choice, an optional choice, a list of   *)
(*                     choices, a list of optional choices}                *)
(* with at most MaxFields fields, attributes declared before or after the  *)
(* elements, and four values per type.  The harness executes them with a   *)
(* schema-driven Serialize / Deserialize implementation (dynser.rs).       *)
(* SerdeModel!SerTree predicts the logical document (or Fail).             *)
(***************************************************************************)
EXTENDS SerdeTypes, TLC, Json

CONSTANTS MaxFields, Emit

Odd(j) == j % 2 = 1
UNITE == [t |-> "unit", names |-> {n_Alpha, n_Beta}]
S_ATTR == Struct(<<Fld(n_k, "attr", NUM)>>)                       \* <x k="7"/>
S_ELEM == Struct(<<Fld(<<120>>, "elem", STR)>>)                   \* <x><x>..</x></x>  (child named like a possible parent)
S_LIST == Struct(<<Fld(n_item, "elem", List(STR))>>)
LeafStructs == {ITEM, S_ATTR, S_ELEM, S_LIST}

\* a string that reaches the serializer through collect_str (a Display type): the same data, another entry point
STRD == [t |-> "str", disp |-> 1]
\* items of attribute lists may contain white space (written as character references)
STRW == [t |-> "str", ws |-> 1]
AttrT == {STR, STRD, NUM, BOOL, FLOAT, UNITE, Opt(STR), SList(STR), SList(STRW), SList(NUM), SList(STRD)}
ElemT == {STR, STRD, NUM, BOOL, UNITE, Opt(STR), Opt(NUM), List(STR), List(NUM)}
         \cup LeafStructs \cup {Opt(s) : s \in LeafStructs} \cup {List(s) : s \in LeafStructs}
TextT == {STR, STRD, NUM, SList(STR), Opt(STR)}
ValueT == {CHOICE, CHOICE2, Opt(CHOICE), List(CHOICE), List(CHOICE3), List(Opt(CHOICE))}

AttrKeys == << <<97>>, <<98>> >>          \* a b
ElemKeys == << <<99>>, <<97>> >>          \* c a   (an element may share its name with an attribute)

\* ---------------------------------------------------------------- the i-th canonical value of a type (i in 1..2)
RECURSIVE ValOf(_, _), ItemOf(_, _), EnumVal(_, _)
ValOf(T, i) ==
    CASE T.t = "str" -> IF i = 1 THEN S(<<97, 60, 38>>) ELSE S(<<>>)                       \* "a<&"  ""
      [] T.t = "num" -> IF i = 1 THEN Nm(<<55>>) ELSE Nm(<<48>>)
      [] T.t = "bool" -> [b |-> IF i = 1 THEN 1 ELSE 0]
      [] T.t = "float" -> [f |-> IF i = 1 THEN <<49, 46, 53>> ELSE <<45, 48, 46, 50, 53>>]
      [] T.t = "unit" -> [u |-> IF i = 1 THEN n_Alpha ELSE n_Beta]
      [] T.t = "opt" -> IF i = 1 THEN ValOf(T.of, 1) ELSE None
      [] T.t = "list" -> IF i = 1 THEN A(<<ValOf(T.of, 1), ValOf(T.of, 2)>>) ELSE A(<<>>)
      [] T.t = "slist" -> IF i = 1 THEN A(<<ItemOf(T.of, 1), ItemOf(T.of, 2)>>) ELSE A(<<>>)
      [] T.t = "struct" -> O([j \in 1..Len(T.fields) |-> <<JKey(T.fields[j]), ValOf(T.fields[j].ty, i)>>])
      [] T.t = "enum" -> EnumVal(T, i)
      [] OTHER -> None
\* items of space-separated lists: non-empty, no blanks
ItemOf(T, i) == IF T.t = "num" THEN ValOf(T, i) ELSE IF i = 1 THEN S(<<97>>) ELSE IF "ws" \in DOMAIN T THEN S(<<60, 34, 13, 32>>) ELSE S(<<60, 34>>)     \* a  <"  (+ CR SP in attribute lists)
\* first: the first variant; second: the text variant if there is one, else the last variant
EnumVal(T, i) ==
    LET pick == IF i = 1 THEN 1
                ELSE LET tx == {j \in 1..Len(T.variants) : T.variants[j].kind = "text"} IN
                     IF tx # {} THEN CHOOSE j \in tx : TRUE ELSE Len(T.variants)
        var == T.variants[pick] IN
    IF var.kind = "unit" THEN [u |-> var.name]
    ELSE IF var.kind = "text" THEN [v |-> var.name, x |-> S(<<116, 38>>)]                  \* "t&"
    ELSE [v |-> var.name, x |-> ValOf(var.ty, 1)]
\* the value of the j-th variant
VariantVal(T, j) ==
    LET var == T.variants[j] IN
    IF var.kind = "unit" THEN [u |-> var.name]
    ELSE IF var.kind = "text" THEN [v |-> var.name, x |-> S(<<116, 38>>)]
    ELSE [v |-> var.name, x |-> ValOf(var.ty, 1)]
\* list-of-choice values: every variant once, in declaration order (text variants are declared last, so no two text items
\* are adjacent - the serializer cannot delimit them), then the first variant again; or a single text / last item
ListChoice(T, i) ==
    IF i = 1 THEN A([j \in 1..(Len(T.of.variants) + 1) |-> IF j <= Len(T.of.variants) THEN VariantVal(T.of, j) ELSE VariantVal(T.of, 1)])
    ELSE \* the second value: the text item (if any) in front of every other variant: text, v1, text, v2, ...
         LET tx == {j \in 1..Len(T.of.variants) : T.of.variants[j].kind = "text"} IN
         IF tx = {} THEN A(<<EnumVal(T.of, 2)>>)
         ELSE LET t == CHOOSE j \in tx : TRUE
                  others == SelectSeq([j \in 1..Len(T.of.variants) |-> j], LAMBDA j : j # t) IN
              A(Flatten([j \in 1..Len(others) |-> <<VariantVal(T.of, t), VariantVal(T.of, others[j])>>]))
\* ... and a list of OPTIONAL choices also holds an absent item between a text and an element
ListOptChoice(T) == A(<<EnumVal(T.of.of, 1), EnumVal(T.of.of, 2), None, EnumVal(T.of.of, 1)>>)
ContentVal(T, i) ==
    IF T.t = "list" /\ T.of.t = "opt" THEN (IF i = 1 THEN ListOptChoice(T) ELSE A(<<None>>))
    ELSE IF T.t = "list" /\ T.of.t = "enum" THEN ListChoice(T, i)
    ELSE ValOf(T, i)

\* ---------------------------------------------------------------- schemas
\* sch = [attrs: Seq(AttrT), elems: Seq(ElemT), content: <<>> | <<kind, ty>>, order: "ae" | "ea"]
FieldsOf(sch) ==
    LET as == [j \in 1..Len(sch.attrs) |-> Fld(AttrKeys[j], "attr", sch.attrs[j])]
        es == [j \in 1..Len(sch.elems) |-> Fld(ElemKeys[j], "elem", sch.elems[j])]
        cs == IF sch.content = <<>> THEN <<>>
              ELSE <<Fld(IF sch.content[1] = "text" THEN n_text ELSE n_value, sch.content[1], sch.content[2])>> IN
    IF sch.order = "ae" THEN as \o es \o cs ELSE es \o cs \o as
TypeOfSch(sch) == Struct(FieldsOf(sch))
NFields(sch) == Len(sch.attrs) + Len(sch.elems) + (IF sch.content = <<>> THEN 0 ELSE 1)
\* the four values of a schema: all first, all second, alternating
ValueOfSch(sch, k) ==
    LET fs == FieldsOf(sch)
        idx(j) == CASE k = 1 -> 1 [] k = 2 -> 2 [] k = 3 -> (IF Odd(j) THEN 1 ELSE 2) [] OTHER -> (IF Odd(j) THEN 2 ELSE 1) IN
    O([j \in 1..Len(fs) |-> <<JKey(fs[j]), IF fs[j].kind \in {"text", "value"} THEN ContentVal(fs[j].ty, idx(j)) ELSE ValOf(fs[j].ty, idx(j))>>])

\* the documented round-trippable domain (C06): text content only without child elements; a choice with a text variant
\* only without child elements; no Option inside text content or inside lists (an absent item leaves no trace); strings in
\* element / text position have no leading or trailing blanks (the canonical values have none)
HasTextVariant(T) == LET E == IF T.t \in {"opt", "list"} THEN (IF T.of.t = "opt" THEN T.of.of ELSE T.of) ELSE T IN
                     E.t = "enum" /\ \E j \in 1..Len(E.variants) : E.variants[j].kind = "text"
InRT(sch) ==
    /\ sch.content # <<>> /\ sch.content[1] = "text" => sch.elems = <<>> /\ sch.content[2].t # "opt"
    /\ sch.content # <<>> /\ sch.content[1] = "value" =>
          /\ ~(sch.content[2].t = "list" /\ sch.content[2].of.t = "opt")
          /\ (HasTextVariant(sch.content[2]) => sch.elems = <<>>)

VARIABLES sch, k
mvars == <<sch, k>>
Init == sch = [attrs |-> <<>>, elems |-> <<>>, content |-> <<>>, order |-> "ae"] /\ k = 0
\* grow the schema one field at a time (attributes, then elements, then content), then pick an order and a value
AddAttr == /\ k = 0 /\ sch.elems = <<>> /\ sch.content = <<>> /\ Len(sch.attrs) < 2 /\ NFields(sch) < MaxFields
           /\ \E t \in AttrT : sch' = [sch EXCEPT !.attrs = Append(@, t)]
           /\ UNCHANGED k
AddElem == /\ k = 0 /\ sch.content = <<>> /\ Len(sch.elems) < 2 /\ NFields(sch) < MaxFields
           /\ \E t \in ElemT : sch' = [sch EXCEPT !.elems = Append(@, t)]
           /\ UNCHANGED k
AddContent == /\ k = 0 /\ sch.content = <<>> /\ NFields(sch) < MaxFields
              /\ \/ \E t \in TextT : sch' = [sch EXCEPT !.content = <<"text", t>>]
                 \/ \E t \in ValueT : sch' = [sch EXCEPT !.content = <<"value", t>>]
              /\ UNCHANGED k
Flip == /\ k = 0 /\ sch.order = "ae" /\ sch.attrs # <<>> /\ (sch.elems # <<>> \/ sch.content # <<>>)
        /\ sch' = [sch EXCEPT !.order = "ea"] /\ UNCHANGED k
Pick == /\ k = 0 /\ NFields(sch) >= 1 /\ \E i \in 1..4 : k' = i /\ UNCHANGED sch
Next == AddAttr \/ AddElem \/ AddContent \/ Flip \/ Pick
Spec == Init /\ [][Next]_mvars

Root == <<82>>       \* <R>
T == TypeOfSch(sch)
V == ValueOfSch(sch, k)
Tree == SerTree(V, T, Root)

\* serialization succeeds on the documented domain
Inv_SerOk == (k > 0 /\ InRT(sch)) => ~IsFail(Tree)
\* whatever is emitted is properly nested and every name is legal
Inv_WellFormed ==
    (k > 0 /\ ~IsFail(Tree)) =>
        /\ Nested(Tree, <<>>)
        /\ \A i \in 1..Len(Tree) : Tree[i][1] \in {"Start", "End"} => IsXmlName(Tree[i][2])
\* vacuity witness
Inv_Witness == k > 0 => PrintT(<<"WITNESS", ToJson(<<IF InRT(sch) THEN "rt" ELSE "nonrt", IF IsFail(Tree) THEN "fail" ELSE "ok", sch.order>>)>>)

Inv_Emit ==
    (Emit /\ k > 0) =>
        PrintT(<<"REPLAY", ToJson([schema |-> T, ty |-> "dyn", v |-> V, root |-> Root, fail |-> IF IsFail(Tree) THEN 1 ELSE 0,
                                   tree |-> IF IsFail(Tree) THEN <<>> ELSE Tree, rt |-> 1, rtrip |-> IF InRT(sch) THEN 1 ELSE 0])>>)
=============================================================================
