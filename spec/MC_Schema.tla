----------------------------- MODULE MC_Schema -----------------------------
(***************************************************************************)
(* C06 / C13 / C14 / C19 over a SPACE OF TYPES: instead of the hand-written *)
(* family, every struct type that can be assembled from a catalogue of     *)
(* field shapes                                                            *)
(*    attributes   x  {string, number, bool, float, unit enum, Option,     *)
(*                     space-separated lists}                              *)
(*    elements     x  {the same primitives, Option, element lists, nested  *)
(*                     structs (with attribute / text / element content),  *)
(*                     Option and lists of those}                          *)
(*    content      x  {$text of string / number / list,                    *)
(*                     $value of a choice, an optional choice, a list of   *)
(*                     choices, a list of optional choices}                *)
(* with at most MaxFields fields, attributes declared before or after the  *)
(* elements, and four values per type.  The harness executes them with a   *)
(* schema-driven Serialize / Deserialize implementation (dynser.rs).       *)
(* SerdeModel!SerTree predicts the logical document (or Fail).             *)
(***************************************************************************)
EXTENDS SchemaGen, TLC, Json

CONSTANTS MaxFields, Emit

VARIABLES sch, k
mvars == <<sch, k>>
Init == sch = [attrs |-> <<>>, elems |-> <<>>, content |-> <<>>, order |-> "ae"] /\ k = 0
\* grow the schema one field at a time (attributes, then elements, then content), then pick an order and a value
AddAttr == /\ k = 0 /\ sch.elems = <<>> /\ sch.content = <<>> /\ Len(sch.attrs) < 2 /\ NFields(sch) < MaxFields
           /\ \E t \in AttrT : sch' = [sch EXCEPT !.attrs = Append(@, t)]
           /\ UNCHANGED k
AddElem == /\ k = 0 /\ sch.content = <<>> /\ Len(sch.elems) < 2 /\ NFields(sch) < MaxFields
           /\ \E t \in ElemT : sch' = [sch EXCEPT !.elems = Append(@, t)]
           /\ UNCHANGED k
AddContent == /\ k = 0 /\ sch.content = <<>> /\ NFields(sch) < MaxFields
              /\ \/ \E t \in TextT : sch' = [sch EXCEPT !.content = <<"text", t>>]
                 \/ \E t \in ValueT : sch' = [sch EXCEPT !.content = <<"value", t>>]
              /\ UNCHANGED k
Flip == /\ k = 0 /\ sch.order = "ae" /\ sch.attrs # <<>> /\ (sch.elems # <<>> \/ sch.content # <<>>)
        /\ sch' = [sch EXCEPT !.order = "ea"] /\ UNCHANGED k
Pick == /\ k = 0 /\ NFields(sch) >= 1 /\ \E i \in 1..4 : k' = i /\ UNCHANGED sch
Next == AddAttr \/ AddElem \/ AddContent \/ Flip \/ Pick
Spec == Init /\ [][Next]_mvars

Root == <<82>>       \* <R>
T == TypeOfSch(sch)
V == ValueOfSch(sch, k)
Tree == SerTree(V, T, Root)

\* serialization succeeds on the documented domain
Inv_SerOk == (k > 0 /\ InRT(sch)) => ~IsFail(Tree)
\* whatever is emitted is properly nested and every name is legal
Inv_WellFormed ==
    (k > 0 /\ ~IsFail(Tree)) =>
        /\ Nested(Tree, <<>>)
        /\ \A i \in 1..Len(Tree) : Tree[i][1] \in {"Start", "End"} => IsXmlName(Tree[i][2])
\* vacuity witness
Inv_Witness == k > 0 => PrintT(<<"WITNESS", ToJson(<<IF InRT(sch) THEN "rt" ELSE "nonrt", IF IsFail(Tree) THEN "fail" ELSE "ok", sch.order>>)>>)

Inv_Emit ==
    (Emit /\ k > 0) =>
        PrintT(<<"REPLAY", ToJson([schema |-> T, ty |-> "dyn", v |-> V, root |-> Root, fail |-> IF IsFail(Tree) THEN 1 ELSE 0,
                                   tree |-> IF IsFail(Tree) THEN <<>> ELSE Tree, rt |-> 1, rtrip |-> IF InRT(sch) THEN 1 ELSE 0])>>)
=============================================================================
