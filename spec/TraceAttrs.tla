----------------------------- MODULE TraceAttrs -----------------------------
(***************************************************************************)
(* Leg (C) for C11: every record is one complete iteration over a tag      *)
(* content as the real Attributes iterator performed it:                   *)
(*   Attrs {s, pos, html, chk, items: [[k, key, val, e, p1, p2]..], fused} *)
(* accepted iff the item list is what Attrs!AttrAll yields.                *)
(***************************************************************************)
EXTENDS Attrs, TLC, Json, IOUtils

Rec == ndJsonDeserialize(IOEnv.TRACE)
VARIABLES l
tvars == <<l>>
TInit == l = 1

ItemOk(s, it, row) ==
    /\ row[1] = it.k
    /\ IF it.k = "Attr"
       THEN row[2] = Slice(s, it.klo, it.khi) /\ row[3] = Slice(s, it.vlo, it.vhi)
       ELSE row[4] = it.e /\ row[5] = it.p1 /\ row[6] = it.p2

TAttrs == /\ l <= Len(Rec) /\ Rec[l].t = "Attrs"
          /\ LET r == Rec[l]
                 items == AttrAll(r.s, r.pos, r.html = 1, r.chk = 1) IN
             /\ Len(items) = Len(r.items)
             /\ \A i \in 1..Len(items) : ItemOk(r.s, items[i], r.items[i])
             /\ r.fused = 1
          /\ l' = l + 1
TNext == TAttrs
TSpec == TInit /\ [][TNext]_tvars
TInv_Pos == TRUE
Accepted ==
    LET d == TLCGet("stats").diameter IN
    IF d - 1 = Len(Rec) THEN PrintT(<<"TRACE", ToJson([matched |-> d - 1, total |-> Len(Rec)])>>)
    ELSE PrintT(<<"TRACE", ToJson([matched |-> d - 1, total |-> Len(Rec)])>>) /\ FALSE
=============================================================================
