----------------------------- MODULE SchemaGen -----------------------------
(***************************************************************************)
(* A space of struct types assembled from a catalogue of field shapes, and *)
(* canonical values for them (shared by MC_Schema and MC_De).              *)
(***************************************************************************)
EXTENDS SerdeTypes

Odd(j) == j % 2 = 1
UNITE == [t |-> "unit", names |-> {n_Alpha, n_Beta}]
S_ATTR == Struct(<<Fld(n_k, "attr", NUM)>>)                       \* <x k="7"/>
S_ELEM == Struct(<<Fld(<<120>>, "elem", STR)>>)                   \* <x><x>..</x></x>  (child named like a possible parent)
S_LIST == Struct(<<Fld(n_item, "elem", List(STR))>>)
LeafStructs == {ITEM, S_ATTR, S_ELEM, S_LIST}

\* a string that reaches the serializer through collect_str (a Display type): the same data, another entry point
STRD == [t |-> "str", disp |-> 1]
\* items of attribute lists may contain white space (written as character references)
STRW == [t |-> "str", ws |-> 1]
AttrT == {STR, STRD, NUM, BOOL, FLOAT, UNITE, Opt(STR), SList(STR), SList(STRW), SList(NUM), SList(STRD), SList(BOOL), SList(FLOAT), SList(UNITE)}
ElemT == {STR, STRD, NUM, BOOL, UNITE, Opt(STR), Opt(NUM), List(STR), List(NUM)}
         \cup LeafStructs \cup {Opt(s) : s \in LeafStructs} \cup {List(s) : s \in LeafStructs}
TextT == {STR, STRD, NUM, SList(STR), SList(BOOL), SList(UNITE), Opt(STR)}
\* a choice whose text variant is a TUPLE variant (written as a space-separated list)
CHOICE4 == [t |-> "enum", variants |-> <<Var(n_One, "unit", STR), Var(n_text, "ttext", SList(NUM))>>]
ValueT == {CHOICE, CHOICE2, CHOICE4, Opt(CHOICE), List(CHOICE), List(CHOICE3), List(CHOICE4), List(Opt(CHOICE))}

AttrKeys == << <<97>>, <<98>> >>          \* a b
ElemKeys == << <<99>>, <<97>> >>          \* c a   (an element may share its name with an attribute)

\* ---------------------------------------------------------------- the i-th canonical value of a type (i in 1..2)
RECURSIVE ValOf(_, _), ItemOf(_, _), EnumVal(_, _)
ValOf(T, i) ==
    CASE T.t = "str" -> IF i = 1 THEN S(<<97, 60, 38>>) ELSE S(<<>>)                       \* "a<&"  ""
      [] T.t = "num" -> IF i = 1 THEN Nm(<<55>>) ELSE Nm(<<48>>)
      [] T.t = "bool" -> [b |-> IF i = 1 THEN 1 ELSE 0]
      [] T.t = "float" -> [f |-> IF i = 1 THEN <<49, 46, 53>> ELSE <<45, 48, 46, 50, 53>>]
      [] T.t = "unit" -> [u |-> IF i = 1 THEN n_Alpha ELSE n_Beta]
      [] T.t = "opt" -> IF i = 1 THEN ValOf(T.of, 1) ELSE None
      [] T.t = "list" -> IF i = 1 THEN A(<<ValOf(T.of, 1), ValOf(T.of, 2)>>) ELSE A(<<>>)
      [] T.t = "slist" -> IF i = 1 THEN A(<<ItemOf(T.of, 1), ItemOf(T.of, 2)>>) ELSE A(<<>>)
      [] T.t = "struct" -> O([j \in 1..Len(T.fields) |-> <<JKey(T.fields[j]), ValOf(T.fields[j].ty, i)>>])
      [] T.t = "enum" -> EnumVal(T, i)
      [] OTHER -> None
\* items of space-separated lists: non-empty, no blanks
ItemOf(T, i) == IF T.t \in {"num", "bool", "float", "unit"} THEN ValOf(T, i) ELSE IF i = 1 THEN S(<<97>>) ELSE IF "ws" \in DOMAIN T THEN S(<<60, 34, 13, 32>>) ELSE S(<<60, 34>>)     \* a  <"  (+ CR SP in attribute lists)
\* first: the first variant; second: the text variant if there is one, else the last variant
EnumVal(T, i) ==
    LET pick == IF i = 1 THEN 1
                ELSE LET tx == {j \in 1..Len(T.variants) : T.variants[j].kind \in {"text", "ttext"}} IN
                     IF tx # {} THEN CHOOSE j \in tx : TRUE ELSE Len(T.variants)
        var == T.variants[pick] IN
    IF var.kind = "unit" THEN [u |-> var.name]
    ELSE IF var.kind = "text" THEN [v |-> var.name, x |-> S(<<116, 38>>)]                  \* "t&"
    ELSE [v |-> var.name, x |-> ValOf(var.ty, 1)]
\* the value of the j-th variant
VariantVal(T, j) ==
    LET var == T.variants[j] IN
    IF var.kind = "unit" THEN [u |-> var.name]
    ELSE IF var.kind = "text" THEN [v |-> var.name, x |-> S(<<116, 38>>)]
    ELSE [v |-> var.name, x |-> ValOf(var.ty, 1)]
\* list-of-choice values: every variant once, in declaration order (text variants are declared last, so no two text items
\* are adjacent - the serializer cannot delimit them), then the first variant again; or a single text / last item
ListChoice(T, i) ==
    IF i = 1 THEN A([j \in 1..(Len(T.of.variants) + 1) |-> IF j <= Len(T.of.variants) THEN VariantVal(T.of, j) ELSE VariantVal(T.of, 1)])
    ELSE \* the second value: the text item (if any) in front of every other variant: text, v1, text, v2, ...
         LET tx == {j \in 1..Len(T.of.variants) : T.of.variants[j].kind \in {"text", "ttext"}} IN
         IF tx = {} THEN A(<<EnumVal(T.of, 2)>>)
         ELSE LET t == CHOOSE j \in tx : TRUE
                  others == SelectSeq([j \in 1..Len(T.of.variants) |-> j], LAMBDA j : j # t) IN
              A(Flatten([j \in 1..Len(others) |-> <<VariantVal(T.of, t), VariantVal(T.of, others[j])>>]))
\* ... and a list of OPTIONAL choices also holds an absent item between a text and an element
ListOptChoice(T) == A(<<EnumVal(T.of.of, 1), EnumVal(T.of.of, 2), None, EnumVal(T.of.of, 1)>>)
ContentVal(T, i) ==
    IF T.t = "list" /\ T.of.t = "opt" THEN (IF i = 1 THEN ListOptChoice(T) ELSE A(<<None>>))
    ELSE IF T.t = "list" /\ T.of.t = "enum" THEN ListChoice(T, i)
    ELSE ValOf(T, i)

\* ---------------------------------------------------------------- schemas
\* sch = [attrs: Seq(AttrT), elems: Seq(ElemT), content: <<>> | <<kind, ty>>, order: "ae" | "ea"]
FieldsOf(sch) ==
    LET as == [j \in 1..Len(sch.attrs) |-> Fld(AttrKeys[j], "attr", sch.attrs[j])]
        es == [j \in 1..Len(sch.elems) |-> Fld(ElemKeys[j], "elem", sch.elems[j])]
        cs == IF sch.content = <<>> THEN <<>>
              ELSE <<Fld(IF sch.content[1] = "text" THEN n_text ELSE n_value, sch.content[1], sch.content[2])>> IN
    IF sch.order = "ae" THEN as \o es \o cs ELSE es \o cs \o as
TypeOfSch(sch) == Struct(FieldsOf(sch))
NFields(sch) == Len(sch.attrs) + Len(sch.elems) + (IF sch.content = <<>> THEN 0 ELSE 1)
\* the four values of a schema: all first, all second, alternating
ValueOfSch(sch, k) ==
    LET fs == FieldsOf(sch)
        idx(j) == CASE k = 1 -> 1 [] k = 2 -> 2 [] k = 3 -> (IF Odd(j) THEN 1 ELSE 2) [] OTHER -> (IF Odd(j) THEN 2 ELSE 1) IN
    O([j \in 1..Len(fs) |-> <<JKey(fs[j]), IF fs[j].kind \in {"text", "value"} THEN ContentVal(fs[j].ty, idx(j)) ELSE ValOf(fs[j].ty, idx(j))>>])

\* the documented round-trippable domain (C06): text content only without child elements; a choice with a text variant
\* only without child elements; no Option inside text content or inside lists (an absent item leaves no trace); strings in
\* element / text position have no leading or trailing blanks (the canonical values have none)
HasTextVariant(T) == LET E == IF T.t \in {"opt", "list"} THEN (IF T.of.t = "opt" THEN T.of.of ELSE T.of) ELSE T IN
                     E.t = "enum" /\ \E j \in 1..Len(E.variants) : E.variants[j].kind \in {"text", "ttext"}
InRT(sch) ==
    /\ sch.content # <<>> /\ sch.content[1] = "text" => sch.elems = <<>> /\ sch.content[2].t # "opt"
    /\ sch.content # <<>> /\ sch.content[1] = "value" =>
          /\ ~(sch.content[2].t = "list" /\ sch.content[2].of.t = "opt")
          /\ (HasTextVariant(sch.content[2]) => sch.elems = <<>>)


\* all schemas with at most n fields (as a set; MC_Schema grows them action by action instead)
SchemaSet(n) ==
    {sc \in [attrs : Seqs(AttrT, 2), elems : Seqs(ElemT, 2),
             content : {<<>>} \cup {<<"text", t>> : t \in TextT} \cup {<<"value", t>> : t \in ValueT}, order : {"ae", "ea"}] :
        /\ NFields(sc) >= 1 /\ NFields(sc) <= n
        /\ (sc.order = "ea" => sc.attrs # <<>> /\ (sc.elems # <<>> \/ sc.content # <<>>))}
=============================================================================
