------------------------------- MODULE Attrs -------------------------------
(***************************************************************************)
(* Attribute iteration (src/events/attributes.rs, IterState) as documented *)
(* on Attributes / AttrError: one call of `next` is                        *)
(*    AttrStep(s, st, html, chk) = [item, st']                             *)
(* s = the tag content (name included), offsets are relative to it.        *)
(* st = [k, off, keys]: k in Next | SkipValue | SkipEqValue | Done, keys = *)
(* spans of the keys seen so far (duplicate check).                        *)
(* item = [k, form, klo, khi, vlo, vhi, e, p1, p2]                         *)
(*   k = "Attr": form in DQ SQ Unq Empty, key = s[klo..khi), value =       *)
(*       s[vlo..vhi)                                                       *)
(*   k = "Err":  e in ExpectedEq ExpectedValue UnquotedValue ExpectedQuote *)
(*       Duplicated with positions p1 (, p2 / quote byte)                  *)
(*   k = "None": iteration has ended                                       *)
(* Recovery points are the documented ones; in particular after Duplicated *)
(* iteration resumes AFTER the value of the repeated attribute (through    *)
(* the closing quote), so well-formed attributes after it are intact.      *)
(***************************************************************************)
EXTENDS Bytes

RECURSIVE FindWsFrom(_, _, _)
FindWsFrom(s, p, n) == IF p >= n \/ IsWs(At(s, p)) THEN Min2(p, n) ELSE FindWsFrom(s, p + 1, n)
RECURSIVE FindEqOrWs(_, _, _)
FindEqOrWs(s, p, n) == IF p >= n \/ At(s, p) = EQS \/ IsWs(At(s, p)) THEN Min2(p, n) ELSE FindEqOrWs(s, p + 1, n)

AItem(form, klo, khi, vlo, vhi) ==
    [k |-> "Attr", form |-> form, klo |-> klo, khi |-> khi, vlo |-> vlo, vhi |-> vhi, e |-> "", p1 |-> 0, p2 |-> 0]
AErr(e, p1, p2) ==
    [k |-> "Err", form |-> "", klo |-> 0, khi |-> 0, vlo |-> 0, vhi |-> 0, e |-> e, p1 |-> p1, p2 |-> p2]
ANone == [k |-> "None", form |-> "", klo |-> 0, khi |-> 0, vlo |-> 0, vhi |-> 0, e |-> "", p1 |-> 0, p2 |-> 0]

AInit(pos) == [k |-> "Next", off |-> pos, keys |-> <<>>]

\* first earlier key with the same bytes (0 = none)
PrevDup(s, keys, klo, khi) ==
    LET S == {i \in 1..Len(keys) : Slice(s, keys[i].lo, keys[i].hi) = Slice(s, klo, khi)} IN
    IF S = {} THEN 0 ELSE CHOOSE i \in S : \A j \in S : i <= j

\* IterState::recover: where scanning resumes, -1 = iteration is over
Recover(s, st) ==
    LET n == Len(s) IN
    CASE st.k = "Done" -> -1
      [] st.k = "Next" -> st.off
      [] st.k = "SkipValue" ->
            LET e == FindWsFrom(s, st.off, n) IN IF e < n THEN e ELSE -1
      [] OTHER ->      \* SkipEqValue: st.off is the '='; skip it, whitespace and the value
            LET p == SkipWsFrom(s, st.off + 1, n) IN
            IF p >= n THEN -1
            ELSE IF At(s, p) \in {DQ, SQ}
                 THEN LET c == FindByte(s, p + 1, n, At(s, p)) IN IF c < n THEN c + 1 ELSE -1
            ELSE LET e == FindWsFrom(s, p, n) IN IF e < n THEN e ELSE -1

AttrStep(s, st, html, chk) ==
    LET n == Len(s)
        r == Recover(s, st) IN
    IF r < 0 THEN [item |-> ANone, st |-> st]
    ELSE
    LET start == SkipWsFrom(s, r, n) IN
    IF start >= n THEN [item |-> ANone, st |-> [st EXCEPT !.k = "Done"]]
    ELSE
    LET e == FindEqOrWs(s, start + 1, n)
        \* key without '=': Empty attribute in HTML mode, ExpectedEq in XML mode
        keyOnly(khi, errp, st1) ==
            IF ~html THEN [item |-> AErr("ExpectedEq", errp, 0), st |-> st1]
            ELSE LET d == IF chk THEN PrevDup(s, st.keys, start, khi) ELSE 0 IN
                 IF d > 0 THEN [item |-> AErr("Duplicated", start, st.keys[d].lo), st |-> st1]
                 ELSE [item |-> AItem("Empty", start, khi, khi, khi),
                       st |-> IF chk THEN [st1 EXCEPT !.keys = Append(st.keys, [lo |-> start, hi |-> khi])] ELSE st1]
        withEq(khi, eqp) ==
            LET d == IF chk THEN PrevDup(s, st.keys, start, khi) ELSE 0 IN
            IF d > 0 THEN [item |-> AErr("Duplicated", start, st.keys[d].lo),
                           st |-> [st EXCEPT !.k = "SkipEqValue", !.off = eqp]]
            ELSE
            LET keys2 == IF chk THEN Append(st.keys, [lo |-> start, hi |-> khi]) ELSE st.keys
                v == SkipWsFrom(s, eqp + 1, n) IN
            IF v >= n THEN [item |-> AErr("ExpectedValue", n, 0), st |-> [st EXCEPT !.k = "Done", !.keys = keys2]]
            ELSE IF At(s, v) \in {DQ, SQ} THEN
                LET c == FindByte(s, v + 1, n, At(s, v)) IN
                IF c < n THEN [item |-> AItem(IF At(s, v) = DQ THEN "DQ" ELSE "SQ", start, khi, v + 1, c),
                               st |-> [st EXCEPT !.k = "Next", !.off = c + 1, !.keys = keys2]]
                ELSE [item |-> AErr("ExpectedQuote", n, At(s, v)), st |-> [st EXCEPT !.k = "Done", !.keys = keys2]]
            ELSE IF html THEN
                LET w == FindWsFrom(s, v + 1, n) IN
                [item |-> AItem("Unq", start, khi, v, w), st |-> [st EXCEPT !.k = "Next", !.off = w, !.keys = keys2]]
            ELSE [item |-> AErr("UnquotedValue", v, 0), st |-> [st EXCEPT !.k = "SkipValue", !.off = v, !.keys = keys2]]
    IN
    IF e >= n THEN keyOnly(n, n, [st EXCEPT !.k = "Done"])
    ELSE IF At(s, e) = EQS THEN withEq(e, e)
    ELSE LET o == SkipWsFrom(s, e + 1, n) IN
         IF o >= n THEN keyOnly(e, n, [st EXCEPT !.k = "Done"])
         ELSE IF At(s, o) = EQS THEN withEq(e, o)
         ELSE keyOnly(e, o, [st EXCEPT !.k = "Next", !.off = o])

\* the whole iteration: items up to and excluding the first None
RECURSIVE AttrRun(_, _, _, _, _)
AttrRun(s, st, html, chk, fuel) ==
    LET r == AttrStep(s, st, html, chk) IN
    IF r.item.k = "None" \/ fuel = 0 THEN <<>>
    ELSE <<r.item>> \o AttrRun(s, r.st, html, chk, fuel - 1)
AttrAll(s, pos, html, chk) == AttrRun(s, AInit(pos), html, chk, Len(s) + 2)

\* the duplicate check toggled BETWEEN calls (Attributes::with_checks in the middle of an iteration): keys are recorded during
\* the checked phases only, and what was recorded survives an unchecked phase.  pat = sequence of BOOLEAN, used cyclically
RECURSIVE AttrRunPat(_, _, _, _, _, _)
AttrRunPat(s, st, html, pat, i, fuel) ==
    LET chk == pat[((i - 1) % Len(pat)) + 1]
        r == AttrStep(s, st, html, chk) IN
    IF r.item.k = "None" \/ fuel = 0 THEN <<>> ELSE <<r.item>> \o AttrRunPat(s, r.st, html, pat, i + 1, fuel - 1)
AttrAllPat(s, pos, html, pat) == AttrRunPat(s, AInit(pos), html, pat, 1, Len(s) + 2)

\* the state in which the iteration ends (for "stays ended")
RECURSIVE AttrEnd(_, _, _, _, _)
AttrEnd(s, st, html, chk, fuel) ==
    LET r == AttrStep(s, st, html, chk) IN
    IF r.item.k = "None" \/ fuel = 0 THEN r.st ELSE AttrEnd(s, r.st, html, chk, fuel - 1)
---------------------------------------------------------------------------
(* Consumers of the iteration in the public API.                            *)
\* Attributes::has_nil: "ignores any errors in attributes" - an attribute p:nil (p bound to the XMLSchema-instance
\* namespace by the caller's reader) whose value is one of the two true literals, anywhere among the yielded items
NIL_KEY == <<112, 58, 110, 105, 108>>
HasNil(s, items) ==
    \E i \in 1..Len(items) : /\ items[i].k = "Attr"
                             /\ Slice(s, items[i].klo, items[i].khi) = NIL_KEY
                             /\ Slice(s, items[i].vlo, items[i].vhi) \in {<<49>>, <<116, 114, 117, 101>>}
\* BytesStart::try_get_attribute(name): iterates WITHOUT duplicate checks; the first error met before a match is returned
RECURSIVE TryGetFrom(_, _, _, _)
TryGetFrom(s, items, i, name) ==
    IF i > Len(items) THEN <<"None", 0, 0, "">>
    ELSE IF items[i].k = "Err" THEN <<"Err", items[i].p1, items[i].p2, items[i].e>>
    ELSE IF items[i].k = "Attr" /\ Slice(s, items[i].klo, items[i].khi) = name THEN <<"Some", items[i].vlo, items[i].vhi, "">>
    ELSE TryGetFrom(s, items, i + 1, name)
TryGet(s, pos, name) == TryGetFrom(s, AttrAll(s, pos, FALSE, FALSE), 1, name)
=============================================================================
