---------------------------- MODULE TraceWriter ----------------------------
(***************************************************************************)
(* Leg (C) for C09 / C19.                                                  *)
(*  WIndent {evs: [[k,b]..], ch, size, out, plain, same_async}             *)
(*  WBuild  {ops: [descriptor..], out, same_async}                         *)
(***************************************************************************)
EXTENDS Writer, TLC, Json, IOUtils

Rec == ndJsonDeserialize(IOEnv.TRACE)
VARIABLES l
tvars == <<l>>
TInit == l = 1
IsRec(t) == l <= Len(Rec) /\ Rec[l].t = t /\ l' = l + 1

TIndent == /\ IsRec("WIndent")
           /\ LET r == Rec[l]
                  evs == [i \in 1..Len(r.evs) |-> [k |-> r.evs[i][1], b |-> r.evs[i][2]]]
                  ind == [on |-> TRUE, ch |-> r.ch, size |-> r.size] IN
              /\ IndentConforms(evs, r.out, ind)            \* C19 as stated (P): white space only where it may be
              /\ (Len(r.out) <= 300 => DropWs(ReadBack(r.out)) = DropWs(ReadBack(r.plain)))   \* (the reader spec is quadratic: short outputs only)
              /\ (r.out # Written(evs, ind) => PrintT(<<"DRIFT", ToJson("indent-amount")>>))      \* the machine's exact bytes: tag I
              /\ r.plain = Written(evs, NoIndent)
              /\ r.same_async = 1
TBuild == /\ IsRec("WBuild")
          /\ LET r == Rec[l] IN
             /\ ReadBack(r.out) = Coalesce(Flatten([i \in 1..Len(r.ops) |-> LogicalOf(r.ops[i])]))
             /\ r.same_async = 1
TNext == TIndent \/ TBuild
TSpec == TInit /\ [][TNext]_tvars
TInv_Pos == TRUE
Accepted ==
    LET d == TLCGet("stats").diameter IN
    IF d - 1 = Len(Rec) THEN PrintT(<<"TRACE", ToJson([matched |-> d - 1, total |-> Len(Rec)])>>)
    ELSE PrintT(<<"TRACE", ToJson([matched |-> d - 1, total |-> Len(Rec)])>>) /\ FALSE
=============================================================================
