---------------------------- MODULE TraceReader ----------------------------
(***************************************************************************)
(* Leg (C) for the reader group: traces recorded from the real Reader      *)
(* (any source kind, any chunking, faults, configuration flips, skip       *)
(* calls) are accepted iff they are behaviours of XmlRead.  One record per *)
(* public call:                                                            *)
(*   Reset {in, cfg, enc[, first]]  new reader over raw input `in`; first = *)
(*                             size of the first piece of a chunked source *)
(*   Read  {k,e,b,n,x,p,q[,d]} read_event*; d = bytes delivered when an    *)
(*                             injected I/O error fired (k=Err,e=Io)       *)
(*   Cfg   {cfg}               config_mut() assignment                     *)
(*   Rte   {k,e,s,b,p,q,c,txt} read_to_end* / read_text on the last Start  *)
(*   Raw   {n,b,p,q}           Reader::stream(): n bytes asked, b received *)
(* Fields tagged P (spec/Bytes.tla) are bound with equality, fields tagged *)
(* I are left free.  A deviation of a known finding may explain a step;    *)
(* its use is reported with a DEVUSED line.                                *)
(***************************************************************************)
EXTENDS XmlLex, TLC, Json, IOUtils

CONSTANT Deviations
Rec == ndJsonDeserialize(IOEnv.TRACE)

VARIABLES l, inp, bom, cfg, st, lastStart, io
tvars == <<l, inp, bom, cfg, st, lastStart, io>>

OfBits(b) == [aue |-> b[1] = 1, cc |-> b[2] = 1, cen |-> b[3] = 1, eee |-> b[4] = 1,
              tmn |-> b[5] = 1, tts |-> b[6] = 1, tte |-> b[7] = 1]
ToBits(c) == <<IF c.aue THEN 1 ELSE 0, IF c.cc THEN 1 ELSE 0, IF c.cen THEN 1 ELSE 0,
               IF c.eee THEN 1 ELSE 0, IF c.tmn THEN 1 ELSE 0, IF c.tts THEN 1 ELSE 0,
               IF c.tte THEN 1 ELSE 0>>

TInit == /\ l = 1 /\ inp = <<>> /\ bom = 0 /\ cfg = DefaultCfg /\ st = InitSt
         /\ lastStart = [lo |-> 0, hi |-> 0] /\ io = FALSE

DevSets == {{}} \cup {{d} : d \in Deviations}

IsRec(t) == l <= Len(Rec) /\ Rec[l].t = t /\ l' = l + 1

FirstOf(rec) == IF "first" \in DOMAIN rec THEN rec.first ELSE Len(rec.in) + 4
TReset == /\ IsRec("Reset")
          /\ \E dev \in DevSets :
               LET n == SniffLen(Rec[l].in, FirstOf(Rec[l]), Rec[l].enc = 1, dev) IN
               /\ dev # {} => n # SniffLen(Rec[l].in, FirstOf(Rec[l]), Rec[l].enc = 1, {})
               /\ dev # {} => PrintT(<<"DEVUSED", ToJson(dev)>>)
               /\ bom' = n
               /\ inp' = SubSeq(Rec[l].in, n + 1, Len(Rec[l].in))
          /\ cfg' = OfBits(Rec[l].cfg)
          /\ st' = InitSt /\ lastStart' = [lo |-> 0, hi |-> 0] /\ io' = FALSE

TCfg == /\ IsRec("Cfg")
        /\ IF "h" \in DOMAIN Rec[l]
           THEN \* a helper call: the configuration read back afterwards is the documented shorthand applied to the old one
                /\ cfg' = IF Rec[l].h = "trim_text" THEN TrimTextHelper(cfg, Rec[l].on = 1) ELSE EnableAllChecksHelper(cfg, Rec[l].on = 1)
                /\ Rec[l].cfg = ToBits(cfg')
           ELSE cfg' = OfBits(Rec[l].cfg)
        /\ UNCHANGED <<inp, bom, st, lastStart, io>>

\* bytes of the (BOM-less) input a call must have seen; Len+1 = needs end of input
Need(r) ==
    IF r.st.ps = "Done" /\ r.st.off = Len(inp) THEN Len(inp) + 1
    ELSE IF r.ev.k = "Err" /\ r.ev.e = "Syntax.InvalidBangMarkup" THEN r.st.off + 2
    ELSE r.st.off

\* P-level agreement of a logged Read with the spec's result r
NameOk(logged, lo, hi) == AllAscii(inp, lo, hi) => logged = Slice(inp, lo, hi)
MatchRead(rec, r) ==
    /\ rec.k = r.ev.k
    /\ rec.q <= rec.p
    /\ IF r.ev.k = "Err" THEN
            /\ IF r.ev.e \in SyntaxKinds
               THEN /\ rec.e \in SyntaxKinds
                    /\ (r.st.off = Len(inp) => rec.e = r.ev.e)    \* input stopped inside the construct
               ELSE /\ rec.e = r.ev.e
                    /\ rec.p = BufferPosition(r.st)
            /\ NameOk(rec.b, r.ev.lo, r.ev.hi)
            /\ NameOk(rec.x, r.ev.xlo, r.ev.xhi)
       ELSE /\ rec.b = Slice(inp, r.ev.lo, r.ev.hi)
            /\ rec.n = r.ev.n
            /\ rec.p = BufferPosition(r.st)

TRead == /\ IsRec("Read")
         /\ ~io
         /\ ~(Rec[l].k = "Err" /\ Rec[l].e = "Io")
         /\ \E dev \in DevSets :
              LET r == ReadEvent(inp, cfg, st, dev) IN
              /\ dev # {} => r # ReadEvent(inp, cfg, st, {})
              /\ MatchRead(Rec[l], r)
              /\ dev # {} => PrintT(<<"DEVUSED", ToJson(dev)>>)
              /\ st' = r.st
              /\ lastStart' = IF r.ev.k = "Start" THEN [lo |-> r.ev.lo, hi |-> r.ev.lo + r.ev.n] ELSE lastStart
         /\ UNCHANGED <<inp, bom, cfg, io>>

\* C18: an injected I/O error surfaces as Io in a call that really needed
\* bytes beyond what had been delivered; afterwards the reader is finished.
TReadIo == /\ IsRec("Read")
           /\ ~io
           /\ Rec[l].k = "Err" /\ Rec[l].e = "Io"
           /\ \E dev \in DevSets : Need(ReadEvent(inp, cfg, st, dev)) > Rec[l].d - bom
           /\ io' = TRUE
           /\ st' = [st EXCEPT !.ps = "Done"]
           /\ UNCHANGED <<inp, bom, cfg, lastStart>>

\* Calls after an I/O error are tagged I (C18 constrains the run only up to and
\* including the failing call; e.g. an error met while sniffing the BOM or
\* skipping whitespace leaves the reader able to continue): left free.
TReadAfterIo == /\ (IsRec("Read") \/ IsRec("Rte"))
                /\ io
                /\ UNCHANGED <<inp, bom, cfg, st, lastStart, io>>

\* C12: read_to_end* / read_text
TRte == /\ IsRec("Rte")
        /\ ~io
        /\ \E dev \in DevSets :
             LET r == ReadToEnd(inp, cfg, st, dev, Slice(inp, lastStart.lo, lastStart.hi))
                 rec == Rec[l] IN
             /\ dev # {} => r # ReadToEnd(inp, cfg, st, {}, Slice(inp, lastStart.lo, lastStart.hi))
             /\ dev # {} => PrintT(<<"DEVUSED", ToJson(dev)>>)
             /\ IF r.ok
                THEN /\ rec.k = "Span"
                     /\ rec.s = <<r.start, r.end>>
                     /\ rec.txt = 1 => rec.b = Slice(inp, r.start, r.end)
                     /\ rec.p = BufferPosition(r.st)
                ELSE rec.k = "Err"       \* which error is tagged I (e.g. a name that cannot be decoded for the
                                         \* MissingEndTag message surfaces as an Encoding error); C12 requires the
                                         \* failure and the restored configuration
             /\ rec.c = ToBits(cfg)                 \* configuration restored, also on failure
             /\ st' = r.st
        /\ UNCHANGED <<inp, bom, cfg, lastStart, io>>

\* C08: raw bytes through Reader::stream() are the bytes at the reader's offset, the position moves by exactly
\* their number, fewer than asked only at the end of the input; the parse state is untouched
TRaw == /\ IsRec("Raw")
        /\ ~io
        /\ LET k == Len(Rec[l].b) IN
           /\ st.off + k <= Len(inp)
           /\ Rec[l].b = Slice(inp, st.off, st.off + k)
           /\ (k < Rec[l].n => st.off + k = Len(inp))
           /\ st' = [st EXCEPT !.off = st.off + k]
           /\ Rec[l].p = BufferPosition(st')
        /\ UNCHANGED <<inp, bom, cfg, lastStart, io>>

TNext == TReset \/ TCfg \/ TRead \/ TReadIo \/ TReadAfterIo \/ TRte \/ TRaw
TSpec == TInit /\ [][TNext]_tvars

\* invariants evaluated at every step of every validated trace
TInv_Pos == /\ BufferPosition(st) <= Len(inp)
            /\ st.errpos <= Max2(BufferPosition(st), st.off)

Accepted ==
    LET d == TLCGet("stats").diameter IN
    IF d - 1 = Len(Rec) THEN PrintT(<<"TRACE", ToJson([matched |-> d - 1, total |-> Len(Rec)])>>)
    ELSE PrintT(<<"TRACE", ToJson([matched |-> d - 1, total |-> Len(Rec)])>>) /\ FALSE
=============================================================================
