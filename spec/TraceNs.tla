------------------------------ MODULE TraceNs ------------------------------
(***************************************************************************)
(* Leg (C) for C05: traces of the real NsReader.                           *)
(*  NsReset {in, cfg, pool}                                                *)
(*  NsRead  {k,e,b,n,p, res, q, pf, nserr}  read_event* / read_resolved_*; *)
(*          res = namespace of the event ([] when the plain call was used),*)
(*          q = resolve_element then resolve_attribute for the pool,       *)
(*          pf = prefixes()                                                *)
(*  NsSkip  {k,e,s,p,q,pf}  read_to_end* / read_text on the innermost open *)
(*          element (right after its Start or after some of its children)  *)
(***************************************************************************)
EXTENDS NsScope, TLC, Json, IOUtils

CONSTANT Deviations
Rec == ndJsonDeserialize(IOEnv.TRACE)
VARIABLES l, inp, cfg, st, ns, lastStart, pool, dead
tvars == <<l, inp, cfg, st, ns, lastStart, pool, dead>>

OfBits(b) == [aue |-> b[1] = 1, cc |-> b[2] = 1, cen |-> b[3] = 1, eee |-> b[4] = 1,
              tmn |-> b[5] = 1, tts |-> b[6] = 1, tte |-> b[7] = 1]
TInit == /\ l = 1 /\ inp = <<>> /\ cfg = DefaultCfg /\ st = InitSt /\ ns = NsInit
         /\ lastStart = [lo |-> 0, hi |-> 0] /\ pool = <<>> /\ dead = FALSE
IsRec(t) == l <= Len(Rec) /\ Rec[l].t = t /\ l' = l + 1

TReset == /\ IsRec("NsReset")
          /\ inp' = StripBom(Rec[l].in, FALSE) /\ cfg' = OfBits(Rec[l].cfg) /\ st' = InitSt /\ ns' = NsInit
          /\ lastStart' = [lo |-> 0, hi |-> 0] /\ pool' = Rec[l].pool /\ dead' = FALSE

QueriesOk(n, rec) ==
    /\ Len(rec.q) = 2 * Len(pool)
    /\ \A i \in 1..Len(pool) : /\ rec.q[i] = NsResolve(n, pool[i], TRUE)
                               /\ rec.q[Len(pool) + i] = NsResolve(n, pool[i], FALSE)
    /\ rec.pf = NsPrefixes(n)

DevSets == {{}} \cup {{d} : d \in Deviations}
TRead == /\ IsRec("NsRead") /\ ~dead
         /\ \E dev \in DevSets :
              LET r == NsReadEvent(inp, cfg, st, ns, dev)
                  rec == Rec[l] IN
              /\ dev # {} => r # NsReadEvent(inp, cfg, st, ns, {})
              /\ dev # {} => PrintT(<<"DEVUSED", ToJson(dev)>>)
              /\ IF r.nserr # "" THEN rec.k = "NsErr" /\ rec.nserr = r.nserr /\ dead' = TRUE
                 ELSE /\ rec.k = r.ev.k /\ dead' = FALSE
                      /\ (r.ev.k = "Err" => rec.e = r.ev.e \/ (r.ev.e \in SyntaxKinds /\ rec.e \in SyntaxKinds))
                      /\ (r.ev.k # "Err" => /\ rec.b = Slice(inp, r.ev.lo, r.ev.hi) /\ rec.n = r.ev.n
                                            /\ rec.p = BufferPosition(r.st))
                      /\ (rec.res # <<>> => rec.res = NsResolvedOf(inp, r))
                      /\ QueriesOk(r.ns, rec)
              /\ st' = r.st /\ ns' = r.ns
              /\ lastStart' = IF r.ev.k = "Start" THEN [lo |-> r.ev.lo, hi |-> r.ev.lo + r.ev.n] ELSE lastStart
         /\ UNCHANGED <<inp, cfg, pool>>

TSkip == /\ IsRec("NsSkip") /\ ~dead
         /\ \E dev \in DevSets :
              LET nm == IF st.opened = <<>> THEN <<>> ELSE Slice(inp, Last(st.opened).lo, Last(st.opened).hi)
                  k == NsSkip(inp, cfg, st, ns, dev, nm)
                  rec == Rec[l] IN
              /\ dev # {} => k # NsSkip(inp, cfg, st, ns, {}, nm)
              /\ dev # {} => PrintT(<<"DEVUSED", ToJson(dev)>>)
              /\ IF k.r.ok THEN /\ rec.k = "Span" /\ rec.s = <<k.r.start, k.r.end>> /\ rec.p = BufferPosition(k.r.st)
                                /\ QueriesOk(k.ns, rec)
                 ELSE rec.k = "Err"
              /\ st' = k.r.st /\ ns' = k.ns /\ dead' = ~k.r.ok
         /\ UNCHANGED <<inp, cfg, lastStart, pool>>
\* after a namespace error or a failed skip the run is over (not an error-free read)
TAfter == /\ (IsRec("NsRead") \/ IsRec("NsSkip")) /\ dead
          /\ UNCHANGED <<inp, cfg, st, ns, lastStart, pool, dead>>
TNext == TReset \/ TRead \/ TSkip \/ TAfter
TSpec == TInit /\ [][TNext]_tvars
TInv_Pos == ns.nest >= 0 \/ dead
Accepted ==
    LET d == TLCGet("stats").diameter IN
    IF d - 1 = Len(Rec) THEN PrintT(<<"TRACE", ToJson([matched |-> d - 1, total |-> Len(Rec)])>>)
    ELSE PrintT(<<"TRACE", ToJson([matched |-> d - 1, total |-> Len(Rec)])>>) /\ FALSE
=============================================================================
